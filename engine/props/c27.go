package props

import (
	"fmt"
	"go/ast"
	"go/token"
	"go/types"
	"path/filepath"
	"strings"

	"verif/engine/core"
)

func init() {
	Register(&Prop{
		Meta: core.Meta{
			ID: "C27", Title: "A monitored router cannot crash or exhaust the BMP receiver", Level: "other",
			Technique:   "panic-capable-operation enumeration with structural discharge (R-PCO), allocation-size and loop-form checks (R-TAINT) over everything statically reachable from the BMP framing, the BMP decoder and the router's message dispatch; nil-capability check for the BMP pseudo sessions",
			DesignRef:   "DESIGN.md §4 C27",
			Decided:     "(00) no string is grown by concatenation inside an input-driven loop of the decoding/processing functions (quadratic cost); (0) address family lookups keyed by values from a BMP message (peer.addressFamily in configureBySentOpen) are nil-tested before use; for every function reachable from recvBMPMsg, bmp/packet.Decode and Router.processMsg inside protocols/bmp/packet, util/decode and the BMP part of protocols/bgp/server: (1) every explicit index, slice, unchecked type assertion, division and panic() is discharged by a dominating guard; (2) every make() size derived from the wire is bounded by a constant, a ≤16-bit type or the bytes already received; (3) every loop makes progress; (4) no method of the session connection is called on a BMP pseudo session (which has none) — every use of FSM.con / update sender / Adj-RIB-Out reachable from the route-monitoring path is behind a guard that excludes BMP sessions; (5) the locks taken while a message is processed are released on every exit (C25 rule (a) over the BMP functions).",
			NotDecided:  "memory held by well-formed but very large route tables; nil dereferences of values the decoder itself built; library code.",
			TrustedBase: append([]string{"bytes.Buffer / encoding/binary / io.ReadFull return an error at end of input"}, stdTrusted...),
		},
		Run: runC27,
		Controls: []Control{
			{Name: "lookups-normalise-the-peer-address-the-store-does-not", File: "protocols/bgp/server/bmp_neighbor_manager.go", Old: "func (nm *neighborManager) getNeighbor(vrfID uint64, addr [16]byte) *neighbor {\n\tnm.neighborsMu.Lock()\n\tdefer nm.neighborsMu.Unlock()\n", New: "func canonicalPeerAddr(a [16]byte) [16]byte {\n\tif a[10] == 0xff && a[11] == 0xff {\n\t\ta[10], a[11] = 0, 0\n\t}\n\treturn a\n}\n\nfunc (nm *neighborManager) getNeighbor(vrfID uint64, addr [16]byte) *neighbor {\n\tnm.neighborsMu.Lock()\n\tdefer nm.neighborsMu.Unlock()\n\taddr = canonicalPeerAddr(addr)\n", Expect: "lookup-key-agrees-with-stored-key"},
			{Name: "tlv-loop-resums-what-it-decoded", File: "protocols/bmp/packet/initiation_message.go", Old: "func decodeInitiationMessage(buf *bytes.Buffer, ch *CommonHeader) (Msg, error) {\n\tim := &InitiationMessage{\n\t\tCommonHeader: ch,\n\t\tTLVs:         make([]*InformationTLV, 0, 2),\n\t}\n\n\tread := uint32(0)\n\ttoRead := ch.MsgLength - CommonHeaderLen\n\n\tfor read < toRead {\n", New: "func c27resum(l []*InformationTLV) (n uint32) {\n\tfor _, t := range l {\n\t\tn += uint32(t.InformationLength) + MinInformationTLVLen\n\t}\n\treturn n\n}\n\nfunc decodeInitiationMessage(buf *bytes.Buffer, ch *CommonHeader) (Msg, error) {\n\tim := &InitiationMessage{\n\t\tCommonHeader: ch,\n\t\tTLVs:         make([]*InformationTLV, 0, 2),\n\t}\n\n\tread := uint32(0)\n\ttoRead := ch.MsgLength - CommonHeaderLen\n\n\tfor c27resum(im.TLVs) < toRead {\n", Expect: "loop-condition-is-constant-time"},
			{Name: "log-line-grown-by-concatenation", File: "protocols/bgp/server/bmp_router.go", Old: "\t\t\tfmt.Fprintf(logMsg, \" sysDescr.: %s\", string(tlv.Information))\n", New: "\t\t\tr.name += fmt.Sprintf(\" sysDescr.: %s\", string(tlv.Information))\n", Expect: "linear-accumulation"},
			{Name: "receive-buffer-reserved-from-length-field", File: "protocols/bgp/server/bmp_receiver.go", Old: "\tbuffer.Write(header)\n\t_, err = io.CopyN(buffer, c, int64(l)-bmppkt.MinLen)", New: "\tbuffer.Write(header)\n\tbuffer.Grow(int(l) - bmppkt.MinLen)\n\t_, err = io.CopyN(buffer, c, int64(l)-bmppkt.MinLen)", Expect: "bounded-allocation"},
			{Name: "sent-open-addpath-for-foreign-family", File: "protocols/bgp/server/bmp_router.go", Old: "\t\t\t\t\tif peerFamily == nil {\n\t\t\t\t\t\tcontinue\n\t\t\t\t\t}\n", New: "", Expect: "family-lookup-result-guarded"},
			{Name: "framing-allocates-by-length-field", File: "protocols/bgp/server/bmp_receiver.go", Old: "\tbuffer := bytes.NewBuffer(make([]byte, 0, defaultBufferLen))", New: "\tbuffer := bytes.NewBuffer(make([]byte, 0, l))", Expect: "bounded-allocation"},
			{Name: "stats-count-unchecked", File: "protocols/bmp/packet/stats_report.go", Old: "\tif int(sr.StatsCount) > buf.Len()/MinInformationTLVLen {", New: "\tif int(sr.StatsCount) < 0 {", Expect: "bounded-allocation"},
			{Name: "termination-reason-unchecked", File: "protocols/bgp/server/bmp_router.go", Old: "\t\t\tif len(tlv.Information) < 2 {\n\t\t\t\tcontinue\n\t\t\t}\n", New: "", Expect: "no-panic"},
			{Name: "non-update-reaches-session-teardown", File: "protocols/bgp/server/fsm_established.go", Old: "\t\treturn newEstablishedState(s.fsm), s.fsm.reason\n\t}\n\n\tswitch msg.Header.Type {", New: "\t}\n\n\tswitch msg.Header.Type {", Expect: "pseudo-session-has-no-connection"},
			{Name: "peer-up-leaks-client-lock", File: "protocols/bgp/server/bmp_router.go", Old: "\tr.ribClientsMu.Lock()\n\tdefer r.ribClientsMu.Unlock()\n\tn.registerClients(r.ribClients)\n\n\treturn nil", New: "\tr.ribClientsMu.Lock()\n\tif len(r.ribClients) == 0 {\n\t\treturn nil\n\t}\n\tn.registerClients(r.ribClients)\n\tr.ribClientsMu.Unlock()\n\n\treturn nil", Expect: "lock-released-on-every-exit"},
			{Name: "peer-up-open-length-from-header", File: "protocols/bmp/packet/peer_up.go", Old: "\toptParams := make([]byte, msg[OpenMsgMinLen-1])", New: "\toptParams := make([]byte, int(msg[16])<<8+int(msg[17])-OpenMsgMinLen)", Expect: "bounded-allocation"},
		},
	})
}

func bmpScope(f *core.Fn) bool {
	path := f.Pkg.PkgPath
	if strings.HasSuffix(path, "protocols/bmp/packet") || strings.HasSuffix(path, "util/decode") || strings.HasSuffix(path, "util/decoder") {
		return true
	}
	if strings.HasSuffix(path, "protocols/bgp/server") {
		file := filepath.Base(f.Pkg.Fset.Position(f.Decl.Pos()).Filename)
		return strings.HasPrefix(file, "bmp_")
	}
	return false
}

func runC27(c *core.Ctx) {
	loopConditionIsConstantTime(c, "loop-condition-is-constant-time")
	lookupKeyAgreesWithStoredKey(c)
	nilableFamilyGuarded(c, "family-lookup-result-guarded", 1)
	var roots []*core.Fn
	for _, k := range []string{srv + ".recvBMPMsg", "protocols/bmp/packet.Decode", srv + ".(*Router).processMsg"} {
		if f := c.MustFunc(k); f != nil {
			roots = append(roots, f)
		}
	}
	if len(roots) == 0 {
		return
	}
	tags := bmpTagTable(c)
	extraAssertDischarge = func(c *core.Ctx, f *core.Fn, ta *ast.TypeAssertExpr) (bool, string) {
		return bmpTagDischarge(c, f, ta, tags)
	}
	extraAssertDischargePrev := extraAssertDischarge
	extraAssertDischarge = func(c *core.Ctx, f *core.Fn, ta *ast.TypeAssertExpr) (bool, string) {
		if ok, why := extraAssertDischargePrev(c, f, ta); ok {
			return ok, why
		}
		return bmpStateDischarge(c, f, ta, roots)
	}
	extraLoopDischarge = drainLoopDischarge
	defer func() { extraAssertDischarge, extraLoopDischarge = nil, nil }()
	var unions []*unionTable
	for _, u := range bgpUnions[1:] { // Capability and OptParam: the OPENs embedded in peer-up notifications
		unions = append(unions, buildUnionTable(c, u))
	}
	nf, nops := decoderScope(c, "", roots, bmpScope, unions)
	c.Check(nf >= 20, "scope", "functions reachable from the BMP entry points", roots[0].Decl.Pos(), "fewer functions reachable than confirmed by hand (20)")
	c.Check(nops >= 3, "scope", "panic-capable operations enumerated", roots[0].Decl.Pos(), "fewer explicit panic-capable operations than confirmed by hand")
	bmpNoConnection(c, roots)
	// (5) locks taken while a message is processed are released on every exit
	lockPairing(c, bmpScope)
}

// bmpNoConnection: BMP pseudo sessions have no TCP connection, no update sender and no Adj-RIB-Out.  From every call
// that leaves the BMP code into the session code, follow the call graph; a call site or use that is dominated by
// `isBMP == false` (or `con != nil`) is not reachable for a pseudo session; every other use of FSM.con is a crash.
func bmpNoConnection(c *core.Ctx, roots []*core.Fn) {
	p := c.P
	conF := p.Field(srv, "FSM", "con")
	isBMP := p.Field(srv, "FSM", "isBMP")
	if conF == nil || isBMP == nil {
		c.Undecided("pseudo-session-has-no-connection", "FSM.con / FSM.isBMP", token.NoPos, "fields not found")
		return
	}
	excluded := func(f *core.Fn, n ast.Node) bool {
		for _, ft := range core.FactsAt(f, n) {
			if ft.Expr == nil {
				continue
			}
			if core.FieldOf(f.Pkg, ft.Expr) == isBMP && !ft.Truth {
				return true
			}
			if x, isNil := core.IsNilCheck(f.Pkg, ft.Expr); isNil && !ft.Truth && core.FieldOf(f.Pkg, x) == conF {
				return true
			}
		}
		return false
	}
	type item struct {
		f     *core.Fn
		chain []string
	}
	var work []item
	// border: calls from BMP-scope functions into non-BMP functions of the server package
	for _, f := range p.ReachableFns(roots...) {
		if !bmpScope(f) || f.Decl.Body == nil {
			continue
		}
		core.InspectNoLit(f.Decl.Body, func(n ast.Node) bool {
			if call, ok := n.(*ast.CallExpr); ok {
				if g := p.FnOf(core.Callee(f.Pkg, call)); g != nil && g.Decl.Body != nil && strings.HasSuffix(g.Pkg.PkgPath, srv) && !bmpScope(g) {
					work = append(work, item{g, []string{f.Name(), g.Name()}})
				}
			}
			return true
		})
	}
	seen := map[*core.Fn]bool{}
	uses, bad := 0, 0
	for len(work) > 0 {
		it := work[0]
		work = work[1:]
		if seen[it.f] || len(it.chain) > 8 {
			continue
		}
		seen[it.f] = true
		f := it.f
		ord := 0
		core.InspectNoLit(f.Decl.Body, func(n ast.Node) bool {
			switch x := n.(type) {
			case *ast.CallExpr:
				// method call on the connection
				if se, ok := x.Fun.(*ast.SelectorExpr); ok && core.FieldOf(f.Pkg, se.X) == conF {
					ord++
					uses++
					construct := fmt.Sprintf("%s use #%d of FSM.con (%s)", f.Name(), ord, se.Sel.Name)
					if excluded(f, x) {
						c.Hold("pseudo-session-has-no-connection", construct, x.Pos(), "behind a guard that excludes BMP pseudo sessions")
					} else {
						bad++
						c.Fail("pseudo-session-has-no-connection", construct, x.Pos(),
							"reachable for a BMP pseudo session ("+strings.Join(shortAll(it.chain), " → ")+"), which has no connection: a monitored router that makes the receiver take this path crashes it with a nil dereference")
					}
					return true
				}
				if g := p.FnOf(core.Callee(f.Pkg, x)); g != nil && g.Decl.Body != nil && strings.HasSuffix(g.Pkg.PkgPath, srv) {
					if !excluded(f, x) {
						work = append(work, item{g, append(append([]string{}, it.chain...), g.Name())})
					}
				}
			}
			return true
		})
	}
	c.Check(len(seen) >= 5, "pseudo-session-has-no-connection", "session code reachable from the BMP code", token.NoPos, fmt.Sprintf("only %d functions reached: the border between BMP and session code moved", len(seen)))
	_ = uses
	_ = bad
}

// lockPairing: rule (a) of C25 restricted to a scope.
func lockPairing(c *core.Ctx, scope func(*core.Fn) bool) {
	lp := core.BuildLockProg(c.P, scope)
	n := 0
	for _, f := range lp.Fns {
		ls := lp.Sets[f]
		if ls == nil {
			continue
		}
		n++
		leaked := ""
		for k := range ls.ExitMay {
			if !ls.ExitMust[k] {
				leaked = k
			}
		}
		c.Check(leaked == "", "lock-released-on-every-exit", f.Name()+" lock pairing", f.Decl.Pos(),
			"the function returns on some path with "+leaked+" still locked: the next message that needs the lock blocks the router's only goroutine forever — the monitored router has wedged the receiver")
	}
	c.Check(n >= 5, "lock-released-on-every-exit", "functions with lock operations in scope", token.NoPos, fmt.Sprintf("found %d, floor 5", n))
}

const bmpPkt = "protocols/bmp/packet"

// bmpTagTable: message type constant → the one dynamic type bmp/packet.Decode returns for it.  Built from Decode's
// switch on the common header's type; every decoder must store the header it was given (so that MsgType() of the
// result is the switched constant) and every message type's MsgType() must return that stored header's type.
func bmpTagTable(c *core.Ctx) map[string]string {
	p := c.P
	dec := c.MustFunc(bmpPkt + ".Decode")
	if dec == nil {
		return nil
	}
	msgTypeF := p.Field(bmpPkt, "CommonHeader", "MsgType")
	table := map[string]string{}
	ast.Inspect(dec.Decl.Body, func(n ast.Node) bool {
		sw, ok := n.(*ast.SwitchStmt)
		if !ok || sw.Tag == nil || core.FieldOf(dec.Pkg, sw.Tag) != msgTypeF || msgTypeF == nil {
			return true
		}
		hdr := core.ObjOf(dec.Pkg, core.Unparen(sw.Tag).(*ast.SelectorExpr).X)
		for _, cs := range sw.Body.List {
			cc := cs.(*ast.CaseClause)
			if len(cc.List) != 1 {
				continue
			}
			co := core.ConstObjOf(dec.Pkg, cc.List[0])
			if co == nil {
				continue
			}
			tys := map[string]bool{}
			okHdr := true
			for _, st := range cc.Body {
				ast.Inspect(st, func(m ast.Node) bool {
					call, isCall := m.(*ast.CallExpr)
					if !isCall {
						return true
					}
					g := p.FnOf(core.Callee(dec.Pkg, call))
					if g == nil || !strings.HasPrefix(g.Decl.Name.Name, "decode") {
						return true
					}
					// the header is passed on …
					passes := -1
					for i, a := range call.Args {
						if core.ObjOf(dec.Pkg, a) == hdr && hdr != nil {
							passes = i
						}
					}
					for _, t := range successTypes(p, g) {
						tys[t.String()] = true
					}
					// … and stored as the result's CommonHeader
					stored := false
					if passes >= 0 {
						po := core.ParamObj(g, passes)
						ast.Inspect(g.Decl.Body, func(x ast.Node) bool {
							switch y := x.(type) {
							case *ast.KeyValueExpr:
								if id, isId := y.Key.(*ast.Ident); isId && id.Name == "CommonHeader" && core.ObjOf(g.Pkg, y.Value) == po {
									stored = true
								}
							case *ast.AssignStmt:
								if len(y.Lhs) == 1 && len(y.Rhs) == 1 {
									if se, isSel := y.Lhs[0].(*ast.SelectorExpr); isSel && se.Sel.Name == "CommonHeader" && core.ObjOf(g.Pkg, y.Rhs[0]) == po {
										stored = true
									}
								}
							}
							return true
						})
					}
					if !stored {
						okHdr = false
					}
					return true
				})
			}
			if len(tys) == 1 && okHdr {
				for t := range tys {
					table[co.Name()] = t
				}
			}
		}
		return false
	})
	// MsgType() of every message type returns the stored header's type
	for _, f := range p.FuncsIn(bmpPkt) {
		if f.Decl.Recv == nil || f.Decl.Name.Name != "MsgType" || f.Decl.Body == nil {
			continue
		}
		ok := len(f.Decl.Body.List) == 1
		if ok {
			ret, isRet := f.Decl.Body.List[0].(*ast.ReturnStmt)
			ok = isRet && len(ret.Results) == 1 && core.FieldOf(f.Pkg, ret.Results[0]) == msgTypeF
		}
		c.Check(ok, "message-tag-table", f.Name()+" returns the decoded header's message type", f.Decl.Pos(), "MsgType() is not the type field of the header the decoder stored: the dispatch on MsgType() no longer identifies the dynamic type")
	}
	c.Check(len(table) >= 6, "message-tag-table", "bmp/packet.Decode: message type → dynamic type", dec.Decl.Pos(), fmt.Sprintf("table has %d rows (floor 6): %v", len(table), table))
	return table
}

// bmpTagDischarge: x.(*T) inside `case K:` of `switch x.MsgType()` where the table maps K to *T.
func bmpTagDischarge(c *core.Ctx, f *core.Fn, ta *ast.TypeAssertExpr, table map[string]string) (bool, string) {
	asserted := f.Pkg.TypesInfo.TypeOf(ta.Type)
	xo := core.ObjOf(f.Pkg, ta.X)
	if asserted == nil || xo == nil {
		return false, ""
	}
	// x comes from bmp/packet.Decode
	fromDecode := false
	for _, d := range core.DefsOf(f, xo) {
		if call, ok := core.Unparen(d).(*ast.CallExpr); ok && core.FuncKey(core.Callee(f.Pkg, call)) == bmpPkt+".Decode" {
			fromDecode = true
		}
	}
	if !fromDecode {
		return false, ""
	}
	path := core.PathTo(f.Decl.Body, ta)
	for i := len(path) - 1; i >= 1; i-- {
		cc, ok := path[i].(*ast.CaseClause)
		if !ok {
			continue
		}
		var sw *ast.SwitchStmt
		for j := i - 1; j >= 0; j-- {
			if s, isSw := path[j].(*ast.SwitchStmt); isSw {
				sw = s
				break
			}
		}
		if sw == nil || sw.Tag == nil {
			continue
		}
		call, isCall := core.Unparen(sw.Tag).(*ast.CallExpr)
		if !isCall {
			continue
		}
		se, isSel := call.Fun.(*ast.SelectorExpr)
		if !isSel || se.Sel.Name != "MsgType" || core.ObjOf(f.Pkg, se.X) != xo {
			continue
		}
		if len(cc.List) != 1 {
			return false, " (case with several message types)"
		}
		co := core.ConstObjOf(f.Pkg, cc.List[0])
		if co == nil {
			return false, ""
		}
		if table[co.Name()] == asserted.String() {
			return true, "dispatch on MsgType(): Decode returns only " + asserted.String() + " for " + co.Name() + " (message-tag table)"
		}
		return false, fmt.Sprintf(" (Decode returns %s for %s, asserted is %s)", table[co.Name()], co.Name(), asserted.String())
	}
	return false, ""
}

var _ = types.Typ

// bmpStateDischarge: n.fsm.state.(*establishedState) for a neighbor taken from the neighbor manager.  Holds because
// (1) the only store to FSM.state reachable from the BMP entry points that is still in effect when a neighbor is
// published is `fsm.state = newEstablishedState(fsm)` in processPeerUpNotification, (2) neighbors are created only
// there, and (3) nothing reachable from the BMP entry points stores FSM.state afterwards (FSM.run is not reachable).
func bmpStateDischarge(c *core.Ctx, f *core.Fn, ta *ast.TypeAssertExpr, roots []*core.Fn) (bool, string) {
	p := c.P
	stateF := p.Field(srv, "FSM", "state")
	se, ok := core.Unparen(ta.X).(*ast.SelectorExpr)
	if !ok || core.FieldOf(f.Pkg, se) != stateF || stateF == nil {
		return false, ""
	}
	asserted := f.Pkg.TypesInfo.TypeOf(ta.Type)
	up := p.Func(srv + ".(*Router).processPeerUpNotification")
	if asserted == nil || up == nil {
		return false, ""
	}
	// (2) neighbor literals only in processPeerUpNotification; remember the literal
	var lit *ast.CompositeLit
	for _, g := range p.FuncsIn(srv) {
		if g.Decl.Body == nil {
			continue
		}
		bad := false
		ast.Inspect(g.Decl.Body, func(n ast.Node) bool {
			if cl, isCL := n.(*ast.CompositeLit); isCL {
				if t := g.Pkg.TypesInfo.TypeOf(cl); t != nil && strings.HasSuffix(t.String(), "server.neighbor") {
					if g == up {
						lit = cl
					} else {
						bad = true
					}
				}
			}
			return true
		})
		if bad {
			return false, " (a neighbor is also created in " + g.Name() + ")"
		}
	}
	if lit == nil {
		return false, ""
	}
	// (1) last store before publication
	var fsmExpr ast.Expr
	for _, el := range lit.Elts {
		if kv, isKV := el.(*ast.KeyValueExpr); isKV && core.ExprString(kv.Key) == "fsm" {
			fsmExpr = kv.Value
		}
	}
	if fsmExpr == nil {
		return false, ""
	}
	probe := &ast.SelectorExpr{X: fsmExpr, Sel: ast.NewIdent("state")}
	last := ""
	ast.Inspect(up.Decl.Body, func(n ast.Node) bool {
		as, isAs := n.(*ast.AssignStmt)
		if !isAs || as.End() > lit.Pos() || len(as.Lhs) != 1 || len(as.Rhs) != 1 {
			return true
		}
		if l, isSel := as.Lhs[0].(*ast.SelectorExpr); isSel && core.FieldOf(up.Pkg, l) == stateF && core.ExprString(l.X) == core.ExprString(probe.X) {
			// top-level statement of the function body (dominates the literal)
			for _, st := range up.Decl.Body.List {
				if st == ast.Stmt(as) {
					if t := up.Pkg.TypesInfo.TypeOf(as.Rhs[0]); t != nil {
						last = t.String()
					}
				}
			}
		}
		return true
	})
	if last != asserted.String() {
		return false, " (state at publication of the neighbor is " + last + ")"
	}
	// (3) no other store reachable from the BMP entry points
	for _, g := range p.ReachableFns(roots...) {
		if g == up || g.Decl.Body == nil {
			continue
		}
		stores := false
		ast.Inspect(g.Decl.Body, func(n ast.Node) bool {
			if as, isAs := n.(*ast.AssignStmt); isAs {
				for _, l := range as.Lhs {
					if core.FieldOf(g.Pkg, l) == stateF {
						stores = true
					}
				}
			}
			return true
		})
		if stores {
			return false, " (FSM.state is also stored in " + g.Name() + ", reachable from the BMP entry points)"
		}
	}
	return true, "BMP neighbors are published with state = newEstablishedState(…) and nothing reachable from the BMP entry points stores FSM.state afterwards"
}

// drainLoopDischarge:  for len(S) > 0 { g(S[0].a, S[0].b) }  where g ranges over S, skips elements whose a/b differ from
// its parameters, and removes the first match with S = append(S[:i], S[i+1:]...): element 0 matches itself, so every
// iteration removes one element.
func drainLoopDischarge(c *core.Ctx, f *core.Fn, loop *ast.ForStmt) (bool, string) {
	p := c.P
	cond, ok := loop.Cond.(*ast.BinaryExpr)
	if !ok || cond.Op != token.GTR || core.ExprString(cond.Y) != "0" || loop.Init != nil || loop.Post != nil || len(loop.Body.List) != 1 {
		return false, ""
	}
	lc, ok := core.Unparen(cond.X).(*ast.CallExpr)
	if !ok || core.ExprString(lc.Fun) != "len" || len(lc.Args) != 1 {
		return false, ""
	}
	sf := core.FieldOf(f.Pkg, lc.Args[0])
	es, ok := loop.Body.List[0].(*ast.ExprStmt)
	if sf == nil || !ok {
		return false, ""
	}
	call, ok := es.X.(*ast.CallExpr)
	if !ok {
		return false, ""
	}
	g := p.FnOf(core.Callee(f.Pkg, call))
	if g == nil || g.Decl.Body == nil {
		return false, ""
	}
	// arguments are fields of S[0]
	argField := map[int]*types.Var{}
	for i, a := range call.Args {
		se, isSel := core.Unparen(a).(*ast.SelectorExpr)
		if !isSel {
			return false, ""
		}
		ix, isIx := core.Unparen(se.X).(*ast.IndexExpr)
		if !isIx || core.FieldOf(f.Pkg, ix.X) != sf || core.ExprString(ix.Index) != "0" {
			return false, ""
		}
		argField[i] = core.FieldOf(f.Pkg, se)
	}
	// callee: range over S with key i; the only way to skip an element is a mismatch of exactly those fields; then removal
	okRemove := false
	ast.Inspect(g.Decl.Body, func(n ast.Node) bool {
		rs, isR := n.(*ast.RangeStmt)
		if !isR || core.FieldOf(g.Pkg, rs.X) != sf || rs.Key == nil {
			return true
		}
		key := core.ObjOf(g.Pkg, rs.Key)
		skipsOK, removes := true, false
		for _, st := range rs.Body.List {
			switch x := st.(type) {
			case *ast.IfStmt:
				// if S[i].a != pa || S[i].b != pb { continue }   — or guarded calls without control transfer
				hasContinue := false
				ast.Inspect(x.Body, func(m ast.Node) bool {
					if b, isB := m.(*ast.BranchStmt); isB && (b.Tok == token.CONTINUE || b.Tok == token.BREAK) {
						hasContinue = true
					}
					if _, isRet := m.(*ast.ReturnStmt); isRet {
						hasContinue = true
					}
					return true
				})
				if !hasContinue {
					continue
				}
				// every disjunct compares S[i].field with the parameter bound to that field
				var disj []ast.Expr
				var split func(e ast.Expr)
				split = func(e ast.Expr) {
					if be, isB := core.Unparen(e).(*ast.BinaryExpr); isB && be.Op == token.LOR {
						split(be.X)
						split(be.Y)
						return
					}
					disj = append(disj, e)
				}
				split(x.Cond)
				for _, d := range disj {
					be, isB := core.Unparen(d).(*ast.BinaryExpr)
					if !isB || be.Op != token.NEQ {
						skipsOK = false
						continue
					}
					fv := core.FieldOf(g.Pkg, be.X)
					po := core.ObjOf(g.Pkg, be.Y)
					match := false
					for i, af := range argField {
						if af == fv && core.ParamObj(g, i) == po && po != nil {
							match = true
						}
					}
					if !match {
						skipsOK = false
					}
				}
			case *ast.AssignStmt:
				if len(x.Lhs) == 1 && core.FieldOf(g.Pkg, x.Lhs[0]) == sf {
					if ap, isC := core.Unparen(x.Rhs[0]).(*ast.CallExpr); isC && core.ExprString(ap.Fun) == "append" && len(ap.Args) == 2 {
						a0, ok0 := core.Unparen(ap.Args[0]).(*ast.SliceExpr)
						a1, ok1 := core.Unparen(ap.Args[1]).(*ast.SliceExpr)
						if ok0 && ok1 && a0.Low == nil && core.ObjOf(g.Pkg, a0.High) == key && a1.High == nil {
							if be, isB := core.Unparen(a1.Low).(*ast.BinaryExpr); isB && be.Op == token.ADD && core.ObjOf(g.Pkg, be.X) == key && core.ExprString(be.Y) == "1" {
								removes = true
							}
						}
					}
				}
			}
		}
		if skipsOK && removes {
			okRemove = true
		}
		return true
	})
	if okRemove {
		return true, "draining loop: every iteration removes the element it passes to " + g.Name()
	}
	return false, ""
}

var _ = token.NoPos
