package props

import (
	"fmt"
	"go/ast"
	"go/token"
	"go/types"

	"verif/engine/core"
)

// lookupKeyAgreesWithStoredKey: BMP neighbors are found again (route monitoring, peer down, the dispose-all loop that
// runs until the list is empty) by comparing the stored peer address with the one of the message.  If the look-ups
// pass their key through a normalising function, the stored key has to go through the same function — otherwise a
// neighbor announced in the un-normalised form can never be found: its routes are never removed and disposeAll spins
// forever with the list lock held (the receiver is wedged).  Rule: every function whose result is compared with
// neighbor.peerAddress is also applied to the peerAddress of the element that addNeighbor stores.
func lookupKeyAgreesWithStoredKey(c *core.Ctx) {
	const rule = "lookup-key-agrees-with-stored-key"
	p := c.P
	addrF := p.Field(srv, "neighbor", "peerAddress")
	listF := p.Field(srv, "neighborManager", "neighbors")
	if addrF == nil || listF == nil {
		c.Check(false, rule, "neighbor.peerAddress / neighborManager.neighbors", 0, "fields not found")
		return
	}
	norm := map[*types.Func]ast.Node{}
	nCmp := 0
	for _, f := range p.MethodsOf(srv, "neighborManager") {
		if f.Decl.Body == nil {
			continue
		}
		ast.Inspect(f.Decl.Body, func(nd ast.Node) bool {
			be, ok := nd.(*ast.BinaryExpr)
			if !ok || (be.Op != token.EQL && be.Op != token.NEQ) {
				return true
			}
			for i, side := range []ast.Expr{be.X, be.Y} {
				other := []ast.Expr{be.Y, be.X}[i]
				if core.FieldOf(f.Pkg, side) != addrF {
					continue
				}
				// the stored side must be an element of the list; the other side is the key
				nCmp++
				c.Analysed(f)
				var srcs []ast.Expr
				if id, isId := core.Unparen(other).(*ast.Ident); isId {
					if o := core.ObjOf(f.Pkg, id); o != nil {
						srcs = core.DefsOf(f, o)
					}
				} else {
					srcs = []ast.Expr{other}
				}
				for _, s := range srcs {
					if call, isCall := core.Unparen(s).(*ast.CallExpr); isCall {
						if cal := core.Callee(f.Pkg, call); cal != nil {
							norm[cal] = be
						}
					}
				}
			}
			return true
		})
	}
	c.Check(nCmp >= 3, rule, "peer address comparisons found", 0, fmt.Sprintf("found %d comparisons with neighbor.peerAddress in the neighbor manager, floor 3", nCmp))
	if len(norm) == 0 {
		c.Hold(rule, "look-ups compare the peer address as received", 0, "no look-up normalises its key, and the element is stored as received")
		return
	}
	// the storing function: appends to the list
	for cal, at := range norm {
		stored := false
		for _, f := range p.MethodsOf(srv, "neighborManager") {
			if f.Decl.Body == nil {
				continue
			}
			appends := false
			ast.Inspect(f.Decl.Body, func(nd ast.Node) bool {
				if as, ok := nd.(*ast.AssignStmt); ok {
					for _, l := range as.Lhs {
						if core.FieldOf(f.Pkg, l) == listF {
							appends = true
						}
					}
				}
				return true
			})
			if !appends {
				continue
			}
			ast.Inspect(f.Decl.Body, func(nd ast.Node) bool {
				as, ok := nd.(*ast.AssignStmt)
				if !ok || len(as.Lhs) != len(as.Rhs) {
					return true
				}
				for i, l := range as.Lhs {
					if core.FieldOf(f.Pkg, l) == addrF {
						if call, isCall := core.Unparen(as.Rhs[i]).(*ast.CallExpr); isCall && core.Callee(f.Pkg, call) == cal {
							stored = true
						}
					}
				}
				return true
			})
		}
		c.Check(stored, rule, "stored peer address passes through "+cal.Name()+" like the look-up keys", at.Pos(),
			"the look-ups compare the stored peer address with "+cal.Name()+"(key), but the neighbor is stored with the address as received: a peer announced in the other form is never found again — its routes outlive peer down and session end, and the dispose-all loop never terminates")
	}
}
