package props

import (
	"fmt"
	"go/ast"
	"go/token"
	"go/types"
	"strings"

	"verif/engine/core"
)

func init() {
	Register(&Prop{
		Meta: core.Meta{
			ID: "C28", Title: "BMP receiver tables mirror the monitored sessions", Level: "other",
			Technique:   "must-pass-through and pairing rules on go/cfg and the call graph for the three ways a monitored session ends; iteration-safety rule (no range over a slice the body shrinks); encoder/decoder agreement of the ADD-PATH direction through the session constructor's field mapping",
			DesignRef:   "DESIGN.md §4 C28",
			Decided:     "(0) from Router.cleanup, LocRIB.Dispose is reached for every table of every VRF (range over VRF.ribs within range over VRFRegistry.vrfs, neither left early), so table observers are told when the BMP connection ends; no function on the BMP message path registers a contributing ASN / cluster ID with the VRF (the loop check of the Adj-RIB-In stays inert for monitored tables); (1) peer down, termination and loss of the BMP connection each reach, on every path, the disposal of both address families' Adj-RIB-In of the affected neighbor(s) — which flushes the routes into the VRF's Loc-RIB clients and unregisters it; (2) the disposal of all neighbors visits every neighbor: no loop ranges over the neighbor list while its body removes elements from it; (3) the ADD-PATH direction read from the monitored router's sent OPEN is the inverse of what bio-rd's own OPEN construction writes for the same configuration fields (send ↔ send, receive ↔ receive), so route-monitoring UPDATEs are decoded with the path-identifier setting the monitored session negotiated; (4) the pseudo session's Adj-RIB-In is registered with the VRF's Loc-RIB when the peer comes up.",
			NotDecided:  "that the tables contain *exactly* the announced-and-not-withdrawn routes for every message sequence (that is the behaviour of the RIB pipeline, C05–C09, under the BMP driver); observers being informed is the client-notification pairing of C06.",
			TrustedBase: stdTrusted,
		},
		Run: runC28,
		Controls: []Control{
			{Name: "replaced-path-kept-when-the-new-one-is-ineligible", File: "routingtable/adjRIBIn/adj_rib_in.go", Old: "\ta.removePathsFromClients(pfx, oldPaths)\n\n\t// Bail out if this path is considered ineligible\n\tp.HiddenReason = a.validatePath(p)\n\tif p.HiddenReason != route.HiddenReasonNone {\n\t\treturn nil\n\t}\n", New: "\t// Bail out if this path is considered ineligible\n\tp.HiddenReason = a.validatePath(p)\n\tif p.HiddenReason != route.HiddenReasonNone {\n\t\treturn nil\n\t}\n\ta.removePathsFromClients(pfx, oldPaths)\n", Expect: "replaced-paths-withdrawn"},
			{Name: "peer-as-from-the-two-octet-open-field", File: "protocols/bgp/server/bmp_router.go", Old: "\t\t\tpeerASN:         msg.PerPeerHeader.PeerAS,\n", New: "\t\t\tpeerASN:         uint32(recvOpen.ASN),\n", Expect: "bmp-peer-asn-from-the-per-peer-header"},
			{Name: "adj-rib-in-created-before-the-open-is-evaluated", File: "protocols/bgp/server/bmp_router.go", Old: "\t}, fsm)\n\n\trib6, found := fsm.peer.vrf.RIBByName(\"inet6.0\")", New: "\t}, fsm)\n\tfsm.ipv4Unicast.bmpInit()\n\n\trib6, found := fsm.peer.vrf.RIBByName(\"inet6.0\")", Expect: "session-snapshot-after-negotiation"},
			{Name: "ignored-peers-survive-the-session", File: "protocols/bgp/server/bmp_router.go", Old: "\tr.ignoredPeers = make(map[bnet.IP]struct{})\n}", New: "}", Expect: "session-state-ends-with-session"},
			{Name: "decode-options-cached-in-the-neighbor", File: "protocols/bgp/server/bmp_router.go", Old: "\topt := s.fsm.decodeOptions()\n\topt.Use32BitASN = !msg.PerPeerHeader.GetAFlag()\n", New: "\topt := n.opt\n\topt.Use32BitASN = !msg.PerPeerHeader.GetAFlag()\n", Expect: "per-message-decode-options"},
			{Name: "width-only-changed-for-legacy-messages", File: "protocols/bgp/server/bmp_router.go", Old: "\topt.Use32BitASN = !msg.PerPeerHeader.GetAFlag()\n", New: "\tif msg.PerPeerHeader.GetAFlag() {\n\t\topt.Use32BitASN = false\n\t}\n", Expect: "per-message-decode-options"},
			{Name: "cleanup-drops-tables-without-telling-observers", File: "routingtable/vrf/vrf_registry.go", Old: "\t\tfor _, rib := range r.vrfs[id].ribs {\n\t\t\trib.Dispose()\n\t\t}\n", New: "\t\tr.vrfs[id].Dispose()\n", Expect: "session-end-disposes-tables"},
			{Name: "bmp-session-registers-local-asn", File: "protocols/bgp/server/fsm_address_family.go", Old: "func (f *fsmAddressFamily) bmpInit() {\n", New: "func (f *fsmAddressFamily) bmpInit() {\n\tf.fsm.peer.vrf.AddContributingASN(f.fsm.peer.localASN)\n", Expect: "tables-hold-what-was-announced"},
			{Name: "refactor-dispose-all-over-copy", Silent: true, File: "protocols/bgp/server/bmp_neighbor_manager.go", Old: "\tfor len(nm.neighbors) > 0 {\n\t\tnm._neighborDown(nm.neighbors[0].vrfID, nm.neighbors[0].peerAddress)\n\t}\n", New: "\tall := make([]*neighbor, len(nm.neighbors))\n\tcopy(all, nm.neighbors)\n\tfor _, n := range all {\n\t\tnm._neighborDown(n.vrfID, n.peerAddress)\n\t}\n"},
			{Name: "dispose-all-ranges-over-shrinking-list", File: "protocols/bgp/server/bmp_neighbor_manager.go", Old: "\tfor len(nm.neighbors) > 0 {\n\t\tnm._neighborDown(nm.neighbors[0].vrfID, nm.neighbors[0].peerAddress)\n\t}\n", New: "\tfor _, n := range nm.neighbors {\n\t\tnm._neighborDown(n.vrfID, n.peerAddress)\n\t}\n", Expect: "iteration-visits-every-element"},
			{Name: "add-path-direction-swapped", File: "protocols/bgp/server/bmp_router.go", Old: "\t\t\t\t\tcase packet.AddPathSend:\n\t\t\t\t\t\tpeerFamily.addPathSend = routingtable.ClientOptions{\n\t\t\t\t\t\t\tMaxPaths: 10,\n\t\t\t\t\t\t}\n\t\t\t\t\tcase packet.AddPathReceive:\n\t\t\t\t\t\tpeerFamily.addPathReceive = true\n", New: "\t\t\t\t\tcase packet.AddPathReceive:\n\t\t\t\t\t\tpeerFamily.addPathSend = routingtable.ClientOptions{\n\t\t\t\t\t\t\tMaxPaths: 10,\n\t\t\t\t\t\t}\n\t\t\t\t\tcase packet.AddPathSend:\n\t\t\t\t\t\tpeerFamily.addPathReceive = true\n", Expect: "add-path-direction-agreement"},
			{Name: "peer-down-skips-ipv6", File: "protocols/bgp/server/bmp_neighbor_manager.go", Old: "\t\tif nm.neighbors[i].fsm.ipv6Unicast != nil {\n\t\t\tnm.neighbors[i].fsm.ipv6Unicast.bmpDispose()\n\t\t}\n", New: "", Expect: "session-end-disposes-tables"},
			{Name: "connection-loss-without-cleanup", File: "protocols/bgp/server/bmp_router.go", Old: "func (r *Router) serve(con net.Conn) error {\n\tdefer r.cleanup()\n", New: "func (r *Router) serve(con net.Conn) error {\n", Expect: "session-end-disposes-tables"},
		},
	})
}

func runC28(c *core.Ctx) {
	bmpPeerASNFromThePerPeerHeader(c, "bmp-peer-asn-from-the-per-peer-header")
	sessionStateEndsWithSession(c)
	perMessageOptionsAreFresh(c)
	snapshotAfterNegotiation(c)
	// the monitored sessions' tables are fed through the same Adj-RIB-In → Loc-RIB → observer pipeline as real sessions:
	// its propagation rules (C05: what the Adj-RIB-In tells the Loc-RIB; C04: what the Loc-RIB tells its observers) are
	// necessary for `tables contain exactly … and table observers are informed` too and are run here under C28 as well
	runC05(c)
	runC04(c)
	p := c.P
	disp := c.MustFunc(srv + ".(*fsmAddressFamily).bmpDispose")
	down := c.MustFunc(srv + ".(*neighborManager)._neighborDown")
	all := c.MustFunc(srv + ".(*neighborManager).disposeAll")
	if disp == nil || down == nil || all == nil {
		return
	}
	c.Analysed(disp, down, all)
	// (1a) _neighborDown disposes both families of the neighbor it removes: before the removal statement
	v4, v6 := p.Field(srv, "FSM", "ipv4Unicast"), p.Field(srv, "FSM", "ipv6Unicast")
	for name, fam := range map[string]*types.Var{"IPv4": v4, "IPv6": v6} {
		ok := false
		for _, call := range core.Calls(down.Pkg, down.Decl.Body, func(o *types.Func) bool { return o == disp.Obj }) {
			se, isSel := call.Fun.(*ast.SelectorExpr)
			if !isSel || core.FieldOf(down.Pkg, se.X) != fam || fam == nil {
				continue
			}
			// only guard allowed: the family exists
			good := true
			for _, ft := range core.CtlFactsAt(down, call) {
				if !ft.Enclosing {
					continue
				}
				x, isNil := core.IsNilCheck(down.Pkg, ft.Expr)
				if !isNil || ft.Truth || core.FieldOf(down.Pkg, x) != fam {
					good = false
				}
			}
			if good {
				ok = true
			}
		}
		c.Check(ok, "session-end-disposes-tables", down.Name()+" disposes the "+name+" Adj-RIB-In of the neighbor", down.Decl.Pos(),
			"when a monitored peer goes down its "+name+" routes are not flushed and its Adj-RIB-In stays registered: the VRF table keeps routes of a session that no longer exists")
	}
	// bmpDispose flushes and unregisters
	{
		flush := len(core.Calls(disp.Pkg, disp.Decl.Body, func(o *types.Func) bool { return o.Name() == "Flush" })) > 0
		unreg := len(core.Calls(disp.Pkg, disp.Decl.Body, func(o *types.Func) bool { return o.Name() == "Unregister" })) > 0
		c.Check(flush && unreg, "session-end-disposes-tables", disp.Name()+" flushes the Adj-RIB-In and unregisters the Loc-RIB", disp.Decl.Pos(), "disposal no longer withdraws the routes from the VRF table (Flush) or leaves the table registered")
	}
	// (1b) the three ends reach it on every path
	isDown := func(o *types.Func) bool { return o == down.Obj }
	isAll := func(o *types.Func) bool { return o == all.Obj }
	type end struct {
		key  string
		gate func(*types.Func) bool
		what string
	}
	for _, e := range []end{
		{srv + ".(*Router).processPeerDownNotification", func(o *types.Func) bool { return isDown(o) || o.Name() == "neighborDown" }, "peer down notification"},
		{srv + ".(*Router).processTerminationMsg", isAll, "termination message"},
		{srv + ".(*Router).cleanup", isAll, "loss of the BMP connection (cleanup)"},
	} {
		f := c.MustFunc(e.key)
		if f == nil {
			continue
		}
		c.Analysed(f)
		gate := p.GateNode(f, e.gate, nil, 0)
		rets, implicit := core.ExitsWithout(p.CFG(f), gate)
		// peer down for an ignored peer returns early by design: exempt returns under the ignoredPeers test
		bad := implicit
		for _, r := range rets {
			exempt := false
			for _, ft := range core.CtlFactsAt(f, r) {
				if ft.Expr != nil && strings.Contains(core.ExprString(ft.Expr), "exists") && ft.Truth {
					exempt = true
				}
			}
			if !exempt {
				bad = true
			}
		}
		c.Check(!bad, "session-end-disposes-tables", f.Name()+" disposes the neighbor tables on every path ("+e.what+")", f.Decl.Pos(),
			"a "+e.what+" can be handled without the affected neighbors' tables being disposed: their routes stay in the VRF tables")
	}
	if serve := c.MustFunc(srv + ".(*Router).serve"); serve != nil {
		cl := p.Func(srv + ".(*Router).cleanup")
		ok := false
		ast.Inspect(serve.Decl.Body, func(n ast.Node) bool {
			if d, isD := n.(*ast.DeferStmt); isD && cl != nil && core.Callee(serve.Pkg, d.Call) == cl.Obj {
				// deferred at top level before any return
				for _, st := range serve.Decl.Body.List {
					if st == ast.Stmt(d) {
						ok = true
					}
					if _, isRet := st.(*ast.ReturnStmt); isRet && !ok {
						break
					}
				}
			}
			return true
		})
		c.Check(ok, "session-end-disposes-tables", serve.Name()+" runs cleanup when the connection ends", serve.Decl.Pos(), "the session loop can end (read error, stop) without the cleanup being run: all tables of the monitored router keep their routes")
	}

	// (1c) the cleanup tells the observers of every table: from Router.cleanup a call of LocRIB.Dispose is reached that sits
	// in a range loop over a VRF's tables, itself (in the same function or through its caller) in a range loop over the
	// registry's VRFs
	if cl := c.MustFunc(srv + ".(*Router).cleanup"); cl != nil {
		disp := p.Func("routingtable/locRIB.(*LocRIB).Dispose")
		ribsF := p.Field("routingtable/vrf", "VRF", "ribs")
		vrfsF := p.Field("routingtable/vrf", "VRFRegistry", "vrfs")
		found, why := false, "LocRIB.Dispose is not reached from the cleanup"
		if disp == nil || ribsF == nil || vrfsF == nil {
			c.Undecided("session-end-disposes-tables", "LocRIB.Dispose / VRF.ribs / VRFRegistry.vrfs", token.NoPos, "anchors not found")
		} else {
			mentions := func(f *core.Fn, e ast.Expr, fv *types.Var) bool {
				return core.NodeHas(e, func(n ast.Node) bool {
					ex, ok := n.(ast.Expr)
					return ok && core.FieldOf(f.Pkg, ex) == fv
				})
			}
			inRangeOver := func(f *core.Fn, at ast.Node, fv *types.Var) bool {
				for _, anc := range core.PathTo(f.Decl.Body, at) {
					if rs, ok := anc.(*ast.RangeStmt); ok && mentions(f, rs.X, fv) && len(loopExits(rs.Body)) == 0 {
						return true
					}
				}
				return false
			}
			for _, f := range p.ReachableFns(cl) {
				for _, call := range core.CallsAll(f.Pkg, f.Decl.Body, func(o *types.Func) bool { return o == disp.Obj }) {
					why = "LocRIB.Dispose is called, but not for every table of every VRF (a range over VRF.ribs inside a range over VRFRegistry.vrfs, neither left early)"
					if !inRangeOver(f, call, ribsF) {
						continue
					}
					if inRangeOver(f, call, vrfsF) {
						found = true
						continue
					}
					// the per-VRF loop lives in a callee: its call site must be inside the loop over the VRFs
					for _, cs := range callSitesOf(p, f) {
						if inRangeOver(cs.f, cs.call, vrfsF) {
							found = true
						}
					}
				}
			}
			c.Check(found, "session-end-disposes-tables", cl.Name()+" disposes every table of every VRF", cl.Decl.Pos(),
				why+": when the BMP connection goes away the observers registered on the per-VRF tables are neither told (Dispose) nor unregistered, and stay attached to orphaned tables")
		}
	}

	// (1d) a BMP pseudo-session registers no loop-detection value: the Adj-RIB-In hides paths that contain a contributing ASN /
	// cluster ID of the VRF, and a monitored router's table legitimately holds routes with its own ASN in the path
	{
		var roots []*core.Fn
		for _, k := range []string{srv + ".(*Router).processMsg"} {
			if f := c.MustFunc(k); f != nil {
				roots = append(roots, f)
			}
		}
		adds := core.KeyIs("routingtable/vrf.(*VRF).AddContributingASN", "routingtable/vrf.(*VRF).AddContributingClusterID")
		n := 0
		for _, f := range p.ReachableFns(roots...) {
			if f.Decl.Body == nil {
				continue
			}
			n++
			for _, call := range core.Calls(f.Pkg, f.Decl.Body, adds) {
				// the regular session set-up (fsmAddressFamily.init) is reachable too, but only behind `isBMP == false`
				isBMPfalse := false
				for _, ft := range core.FactsAt(f, call) {
					if ft.Expr != nil && core.FieldOf(f.Pkg, ft.Expr) != nil && core.FieldOf(f.Pkg, ft.Expr).Name() == "isBMP" && !ft.Truth {
						isBMPfalse = true
					}
				}
				if isBMPfalse || f.Name() == srv+".(*fsmAddressFamily).init" {
					continue
				}
				c.Fail("tables-hold-what-was-announced", f.Name()+" registers a loop-detection value on the BMP path", call.Pos(), "a function on the BMP message path registers a contributing ASN / cluster ID with the VRF: every monitored route whose AS path contains the monitored router's own ASN is then hidden by the Adj-RIB-In's loop check and never reaches the VRF table")
			}
		}
		c.Check(n >= 5, "tables-hold-what-was-announced", "BMP message path analysed", token.NoPos, fmt.Sprintf("only %d functions reachable from Router.processMsg", n))
	}

	// (2) iteration safety over the neighbor list
	nbF := p.Field(srv, "neighborManager", "neighbors")
	shrinks := map[*core.Fn]bool{}
	for _, f := range p.MethodsOf(srv, "neighborManager") {
		if f.Decl.Body == nil {
			continue
		}
		ast.Inspect(f.Decl.Body, func(n ast.Node) bool {
			as, ok := n.(*ast.AssignStmt)
			if !ok || len(as.Lhs) != 1 || core.FieldOf(f.Pkg, as.Lhs[0]) != nbF || nbF == nil {
				return true
			}
			if call, isC := core.Unparen(as.Rhs[0]).(*ast.CallExpr); isC && core.ExprString(call.Fun) == "append" && len(call.Args) == 2 {
				if _, isSl := core.Unparen(call.Args[0]).(*ast.SliceExpr); isSl {
					shrinks[f] = true
				}
			}
			return true
		})
	}
	c.Check(len(shrinks) >= 1, "iteration-visits-every-element", "functions that remove an element from neighborManager.neighbors", token.NoPos, "none found: the removal the rule is about moved")
	nLoops := 0
	for _, f := range p.MethodsOf(srv, "neighborManager") {
		if f.Decl.Body == nil {
			continue
		}
		ord := 0
		ast.Inspect(f.Decl.Body, func(n ast.Node) bool {
			rs, ok := n.(*ast.RangeStmt)
			if !ok || core.FieldOf(f.Pkg, rs.X) != nbF {
				return true
			}
			ord++
			nLoops++
			// the body calls (transitively, on the same receiver) a function that shrinks the list and then goes on iterating
			bad := ""
			for _, call := range core.CallsAll(f.Pkg, rs.Body, func(o *types.Func) bool { return true }) {
				g := p.FnOf(core.Callee(f.Pkg, call))
				if g == nil {
					continue
				}
				for _, h := range p.ReachableFns(g) {
					if shrinks[h] {
						// allowed when the loop ends right after the call on that path (return/break follows)
						if !core.Terminates(f.Pkg, stmtsAfter(rs.Body, call)) {
							bad = h.Name()
						}
					}
				}
			}
			// removal inside the body itself followed by return is the find-and-remove idiom
			c.Check(bad == "", "iteration-visits-every-element", fmt.Sprintf("%s range #%d over the neighbor list", f.Name(), ord), rs.Pos(),
				"the loop ranges over neighborManager.neighbors while its body calls "+bad+", which removes an element in place and shifts the rest: the element that moves into the current position is skipped, so every second neighbor survives a dispose-all and its routes stay in the tables")
			return true
		})
	}
	c.Check(nLoops >= 2, "iteration-visits-every-element", "range loops over the neighbor list", token.NoPos, fmt.Sprintf("found %d", nLoops))
	// disposeAll: drain loop or a loop over a copy
	{
		okDrain := false
		ast.Inspect(all.Decl.Body, func(n ast.Node) bool {
			if fs, ok := n.(*ast.ForStmt); ok {
				if ok2, _ := drainLoopDischarge(c, all, fs); ok2 {
					okDrain = true
				}
			}
			if rs, ok := n.(*ast.RangeStmt); ok && core.FieldOf(all.Pkg, rs.X) != nbF {
				// range over a copy of the list
				if o := core.ObjOf(all.Pkg, rs.X); o != nil {
					for _, d := range core.DefsOf(all, o) {
						if core.MentionsField(all.Pkg, d, nbF) {
							okDrain = true
						}
					}
				}
			}
			return true
		})
		c.Check(okDrain, "iteration-visits-every-element", all.Name()+" takes every neighbor down", all.Decl.Pos(), "disposeAll is neither a drain loop (take the first neighbor down until none is left) nor a loop over a copy of the list")
	}

	// (3) ADD-PATH direction agreement
	addPathAgreement(c)

	// (4) peer up registers the Adj-RIB-In with the Loc-RIB
	if bi := c.MustFunc(srv + ".(*fsmAddressFamily).bmpInit"); bi != nil {
		reg := false
		for _, call := range core.Calls(bi.Pkg, bi.Decl.Body, func(o *types.Func) bool { return o.Name() == "Register" }) {
			if len(call.Args) == 1 && core.FieldOf(bi.Pkg, call.Args[0]) == p.Field(srv, "fsmAddressFamily", "rib") {
				reg = true
			}
		}
		c.Check(reg, "peer-up-attaches-tables", bi.Name()+" registers the VRF's Loc-RIB with the new Adj-RIB-In", bi.Decl.Pos(), "routes of a monitored peer are stored in its Adj-RIB-In but never reach the VRF table")
	}
}

// stmtsAfter returns the statements that follow the statement containing `at` in the block that directly contains it.
func stmtsAfter(body *ast.BlockStmt, at ast.Node) []ast.Stmt {
	var out []ast.Stmt
	var walk func(list []ast.Stmt) bool
	walk = func(list []ast.Stmt) bool {
		for i, s := range list {
			if s.Pos() <= at.Pos() && at.End() <= s.End() {
				// descend first
				found := false
				ast.Inspect(s, func(n ast.Node) bool {
					if b, ok := n.(*ast.BlockStmt); ok && b != body && b.Pos() <= at.Pos() && at.End() <= b.End() && !found {
						if walk(b.List) {
							found = true
						}
						return false
					}
					return !found
				})
				if !found {
					out = append([]ast.Stmt{}, list[i:]...)
				}
				return true
			}
		}
		return false
	}
	walk(body.List)
	return out
}

// addPathAgreement: configureBySentOpen (reads the monitored router's sent OPEN) is the inverse of
// addPathCapabilityForFamily (writes bio-rd's own OPEN), composed through newPeer's mapping of configuration fields to
// the per-family fields.
func addPathAgreement(c *core.Ctx) {
	enc := c.MustFunc(srv + ".addPathCapabilityForFamily")
	dec := c.MustFunc(srv + ".(*peer).configureBySentOpen")
	mk := c.MustFunc(srv + ".newPeer")
	if enc == nil || dec == nil || mk == nil {
		return
	}
	c.Analysed(enc, dec, mk)
	// encoder: configuration field → capability constant added under a condition on that field
	encMap := map[string]string{} // AddressFamilyConfig field → constant name
	ast.Inspect(enc.Decl.Body, func(n ast.Node) bool {
		ifs, ok := n.(*ast.IfStmt)
		if !ok || len(ifs.Body.List) != 1 {
			return true
		}
		as, isAs := ifs.Body.List[0].(*ast.AssignStmt)
		if !isAs || as.Tok != token.ADD_ASSIGN {
			return true
		}
		co := core.ConstObjOf(enc.Pkg, as.Rhs[0])
		if co == nil {
			return true
		}
		ast.Inspect(ifs.Cond, func(m ast.Node) bool {
			if se, isSel := m.(*ast.SelectorExpr); isSel {
				if fv := core.FieldOf(enc.Pkg, se); fv != nil && ownerName(fv) == "AddressFamilyConfig" {
					encMap[fv.Name()] = co.Name()
				}
			}
			return true
		})
		return true
	})
	// constructor: configuration field → per-family field
	cfgToFam := map[string]string{}
	ast.Inspect(mk.Decl.Body, func(n ast.Node) bool {
		kv, ok := n.(*ast.KeyValueExpr)
		if !ok {
			return true
		}
		id, isId := kv.Key.(*ast.Ident)
		if !isId {
			return true
		}
		if fv := core.FieldOf(mk.Pkg, kv.Value); fv != nil && ownerName(fv) == "AddressFamilyConfig" {
			if kf, isV := mk.Pkg.TypesInfo.ObjectOf(id).(*types.Var); isV && ownerName(kf) == "peerAddressFamily" {
				cfgToFam[fv.Name()] = kf.Name()
			}
		}
		return true
	})
	// decoder: capability constant → per-family fields assigned in that case
	decMap := map[string]map[string]bool{}
	ast.Inspect(dec.Decl.Body, func(n ast.Node) bool {
		cc, ok := n.(*ast.CaseClause)
		if !ok {
			return true
		}
		for _, e := range cc.List {
			co := core.ConstObjOf(dec.Pkg, e)
			if co == nil || !strings.HasPrefix(co.Name(), "AddPath") || strings.HasSuffix(co.Name(), "Code") {
				continue
			}
			set := map[string]bool{}
			for _, st := range cc.Body {
				ast.Inspect(st, func(m ast.Node) bool {
					if as, isAs := m.(*ast.AssignStmt); isAs {
						for _, l := range as.Lhs {
							if fv := core.FieldOf(dec.Pkg, l); fv != nil && ownerName(fv) == "peerAddressFamily" {
								set[fv.Name()] = true
							}
						}
					}
					return true
				})
			}
			decMap[co.Name()] = set
		}
		return true
	})
	c.Check(len(encMap) == 2 && len(cfgToFam) >= 2 && len(decMap) >= 3, "add-path-direction-agreement", "ADD-PATH encoder, constructor mapping and decoder found", dec.Decl.Pos(),
		fmt.Sprintf("encoder map %v, constructor map %v, decoder map %v", encMap, cfgToFam, decMap))
	for cfgField, k := range encMap {
		fam := cfgToFam[cfgField]
		want := map[string]bool{fam: true}
		got := decMap[k]
		ok := fam != "" && len(got) == 1 && got[fam]
		c.Check(ok, "add-path-direction-agreement", "capability "+k+" read from a sent OPEN sets what writing it was derived from", dec.Decl.Pos(),
			fmt.Sprintf("bio-rd's own OPEN announces %s when the configuration field %s (session field %s) is set, but reading %s from the monitored router's sent OPEN sets %v instead of %v: the ADD-PATH direction of an asymmetric session is read backwards, route-monitoring UPDATEs are decoded with the wrong path-identifier setting and dropped", k, cfgField, fam, k, keysOf(got), keysOf(want)))
	}
	// the combined value sets both
	both := map[string]bool{}
	for _, fam := range cfgToFam {
		both[fam] = true
	}
	if got, ok := decMap["AddPathSendReceive"]; ok {
		okBoth := true
		for f := range both {
			if !got[f] {
				okBoth = false
			}
		}
		c.Check(okBoth, "add-path-direction-agreement", "capability AddPathSendReceive sets both directions", dec.Decl.Pos(), fmt.Sprintf("sets %v", keysOf(got)))
	}
}

func keysOf(m map[string]bool) []string {
	var ks []string
	for k := range m {
		ks = append(ks, k)
	}
	return ks
}
