package props

import (
	"fmt"
	"go/ast"
	"go/token"
	"go/types"
	"sort"

	"verif/engine/core"
)

// routerFieldOf: the field of the Router struct at the root of a selector/index chain (r.ignoredPeers[k] → ignoredPeers,
// &r.counters.x → counters), or nil.
func routerFieldOf(f *core.Fn, e ast.Expr, fields map[*types.Var]bool) *types.Var {
	var found *types.Var
	for {
		e = core.Unparen(e)
		switch x := e.(type) {
		case *ast.SelectorExpr:
			if fv := core.FieldOf(f.Pkg, x); fv != nil && fields[fv] {
				found = fv
			}
			e = x.X
		case *ast.IndexExpr:
			e = x.X
		case *ast.StarExpr:
			e = x.X
		case *ast.UnaryExpr:
			if x.Op != token.AND {
				return found
			}
			e = x.X
		default:
			return found
		}
	}
}

// routerWrites: Router fields written in f — assignments, inc/dec, delete, and &field handed to sync/atomic.
// whole[field] is set when the field itself is assigned / stored / cleared.
func routerWrites(f *core.Fn, fields map[*types.Var]bool) (any map[*types.Var]token.Pos, whole map[*types.Var]bool) {
	any, whole = map[*types.Var]token.Pos{}, map[*types.Var]bool{}
	mark := func(e ast.Expr, pos token.Pos) {
		if fv := routerFieldOf(f, e, fields); fv != nil {
			if _, ok := any[fv]; !ok {
				any[fv] = pos
			}
			if core.FieldOf(f.Pkg, core.Unparen(e)) == fv {
				whole[fv] = true
			}
			if u, ok := core.Unparen(e).(*ast.UnaryExpr); ok && u.Op == token.AND && core.FieldOf(f.Pkg, u.X) == fv {
				whole[fv] = true
			}
		}
	}
	ast.Inspect(f.Decl.Body, func(n ast.Node) bool {
		switch x := n.(type) {
		case *ast.AssignStmt:
			for _, l := range x.Lhs {
				mark(l, x.Pos())
			}
		case *ast.IncDecStmt:
			mark(x.X, x.Pos())
		case *ast.CallExpr:
			if id, ok := x.Fun.(*ast.Ident); ok && (id.Name == "delete" || id.Name == "clear") && len(x.Args) > 0 {
				if fv := routerFieldOf(f, x.Args[0], fields); fv != nil {
					if _, ok := any[fv]; !ok {
						any[fv] = x.Pos()
					}
					if id.Name == "clear" {
						whole[fv] = true
					}
				}
			}
			if cal := core.Callee(f.Pkg, x); cal != nil && cal.Pkg() != nil && cal.Pkg().Path() == "sync/atomic" && len(x.Args) > 1 {
				mark(x.Args[0], x.Pos())
			}
		}
		return true
	})
	return
}

// sessionStateEndsWithSession: what the handling of BMP messages writes into the Router object is state of the BMP
// session; when the session ends (serve's deferred cleanup) it has to be reset, or the next session of the monitored
// router starts from what the previous one left behind (ignored peers, a "terminated" mark, …) and drops or keeps
// routes the messages of the new session do not justify.  Exempt, one line each: cumulative statistics, descriptive
// data that every session overwrites before use.
func sessionStateEndsWithSession(c *core.Ctx) {
	const rule = "session-state-ends-with-session"
	p := c.P
	exempt := map[string]string{
		"counters": "cumulative message statistics, meant to survive sessions",
		"name":     "sysName from the Initiation message: descriptive, not consulted when routes are processed",
	}
	fields := map[*types.Var]bool{}
	for _, fv := range p.Fields(srv, "Router") {
		fields[fv] = true
	}
	proc := c.MustFunc(srv + ".(*Router).processMsg")
	cleanup := c.MustFunc(srv + ".(*Router).cleanup")
	if proc == nil || cleanup == nil {
		return
	}
	written := map[*types.Var]token.Pos{}
	where := map[*types.Var]string{}
	for _, f := range p.ReachableFns(proc) {
		if f.Decl.Body == nil || core.RecvName(f.Obj) != "Router" {
			continue
		}
		c.Analysed(f)
		w, _ := routerWrites(f, fields)
		for fv, pos := range w {
			if _, ok := written[fv]; !ok {
				written[fv], where[fv] = pos, f.Name()
			}
		}
	}
	reset := map[*types.Var]bool{}
	for _, f := range p.ReachableFns(cleanup) {
		if f.Decl.Body == nil || core.RecvName(f.Obj) != "Router" {
			continue
		}
		_, whole := routerWrites(f, fields)
		for fv := range whole {
			reset[fv] = true
		}
	}
	var fs []*types.Var
	for fv := range written {
		fs = append(fs, fv)
	}
	sort.Slice(fs, func(i, j int) bool { return fs[i].Pos() < fs[j].Pos() })
	n := 0
	for _, fv := range fs {
		construct := fmt.Sprintf("Router.%s (written in %s)", fv.Name(), where[fv])
		if why, ok := exempt[fv.Name()]; ok {
			c.Hold(rule, construct, written[fv], "exempt: "+why)
			continue
		}
		n++
		c.Check(reset[fv], rule, construct, written[fv],
			fmt.Sprintf("message handling writes Router.%s, and nothing reachable from Router.cleanup (run when the BMP connection ends) resets it: the next BMP session of this router starts with the previous session's %s, so routes of the new session are dropped or kept on the strength of messages of the old one", fv.Name(), fv.Name()))
	}
	c.Check(n >= 1, rule, "session state fields found", 0, "no Router field written by message handling found (confirmed by hand: ignoredPeers)")
}

// perMessageOptionsAreFresh: the decode options of a route monitoring message depend on that message's A flag.  The
// object whose Use32BitASN is set must be created for this message (an owning call), and the flag must be assigned
// from the message on every path to the UPDATE decoder — a cached, shared options object lets one legacy-format
// message switch the decoder for all later messages of the peer.
func perMessageOptionsAreFresh(c *core.Ctx) {
	const rule = "per-message-decode-options"
	p := c.P
	f := c.MustFunc(srv + ".(*Router).processRouteMonitoringMsg")
	if f == nil {
		return
	}
	c.Analysed(f)
	u32 := p.Field(pktPkg, "DecodeOptions", "Use32BitASN")
	aflag := p.Func("protocols/bmp/packet.(*PerPeerHeader).GetAFlag")
	c.Check(u32 != nil && aflag != nil, rule, "anchors", f.Decl.Pos(), "DecodeOptions.Use32BitASN / PerPeerHeader.GetAFlag not found")
	if u32 == nil || aflag == nil {
		return
	}
	var assigns []*ast.AssignStmt
	ast.Inspect(f.Decl.Body, func(n ast.Node) bool {
		if as, ok := n.(*ast.AssignStmt); ok {
			for _, l := range as.Lhs {
				if core.FieldOf(f.Pkg, l) == u32 {
					assigns = append(assigns, as)
				}
			}
		}
		return true
	})
	c.Check(len(assigns) >= 1, rule, f.Name()+" sets the AS number width from the message", f.Decl.Pos(), "processRouteMonitoringMsg never sets DecodeOptions.Use32BitASN: the A flag of the per-peer header is ignored")
	fromFlag := map[ast.Node]bool{}
	for i, as := range assigns {
		base := core.BaseIdent(as.Lhs[0])
		fresh := false
		if base != nil {
			if o := core.ObjOf(f.Pkg, base); o != nil {
				defs := core.DefsOf(f, o)
				fresh = len(defs) > 0
				for _, d := range defs {
					call, ok := core.Unparen(d).(*ast.CallExpr)
					if !ok || !p.OwningCall(f, call) {
						if ue, isU := core.Unparen(d).(*ast.UnaryExpr); !isU || ue.Op != token.AND {
							fresh = false
						} else if _, isLit := ue.X.(*ast.CompositeLit); !isLit {
							fresh = false
						}
					}
				}
			}
		}
		c.Check(fresh, rule, fmt.Sprintf("%s assignment #%d writes an options object of this message", f.Name(), i+1), as.Pos(),
			"the AS number width is written into a decode options object that outlives the message (cached in the neighbor / shared with the session): a single message with the A flag changes how every later message of the peer is decoded")
		uses := len(core.Calls(f.Pkg, as.Rhs[0], func(o *types.Func) bool { return o == aflag.Obj })) > 0
		enclosed := false
		for _, ft := range core.CtlFactsAt(f, as) {
			if ft.Enclosing {
				enclosed = true
			}
		}
		if uses && !enclosed {
			fromFlag[as] = true
		}
	}
	// every path to the decoder passes an unconditional assignment from the flag
	dec := p.Func(srv + ".(*establishedState).msgReceived")
	if dec != nil {
		isAssign := func(n ast.Node) bool { return fromFlag[n] }
		isDec := callNode(f, func(o *types.Func) bool { return o == dec.Obj })
		bad := core.PathAvoiding(p.CFG(f), isAssign, isDec)
		c.Check(len(bad) == 0, rule, f.Name()+" decodes every UPDATE with the width its own A flag says", f.Decl.Pos(),
			"a path reaches the UPDATE decoder without Use32BitASN having been assigned from this message's A flag (missing, or assigned under a condition only): the width of a previous message or of the session is used")
	}
}

// snapshotAfterNegotiation: the Adj-RIB-In of a session copies the session attributes (add-path receive, roles, …) when
// it is created (getSessionAttrs).  In the function that builds the BMP pseudo session nothing that the snapshot reads
// may be written after the snapshot was taken: the received OPEN has to be evaluated first, or the table handles the
// session's UPDATEs with options the session did not negotiate (add-path paths replace each other, withdrawing one
// identifier removes the prefix).
func snapshotAfterNegotiation(c *core.Ctx) {
	const rule = "session-snapshot-after-negotiation"
	p := c.P
	f := c.MustFunc(srv + ".(*Router).processPeerUpNotification")
	snap := c.MustFunc(srv + ".(*fsmAddressFamily).getSessionAttrs")
	if f == nil || snap == nil {
		return
	}
	c.Analysed(f, snap)
	reads := p.ReadsTransitive(snap)
	callsSnap := func(g *core.Fn) bool {
		for _, r := range p.ReachableFns(g) {
			if r == snap {
				return true
			}
		}
		return false
	}
	var S, W []*ast.CallExpr
	wrote := map[*ast.CallExpr]string{}
	ast.Inspect(f.Decl.Body, func(n ast.Node) bool {
		call, ok := n.(*ast.CallExpr)
		if !ok {
			return true
		}
		g := p.FnOf(core.Callee(f.Pkg, call))
		if g == nil || g.Decl.Body == nil {
			return true
		}
		if callsSnap(g) {
			S = append(S, call)
			return true
		}
		for fv := range p.WritesTransitive(g) {
			if reads[fv] {
				W = append(W, call)
				wrote[call] = fv.Name()
				break
			}
		}
		return true
	})
	c.Check(len(S) >= 1 && len(W) >= 1, rule, "snapshot and negotiation calls found", f.Decl.Pos(), fmt.Sprintf("found %d calls that create an Adj-RIB-In from the session attributes and %d calls that write what the attributes are read from; expected bmpInit ×2 and openMsgReceived", len(S), len(W)))
	g := p.CFG(f)
	for i, s := range S {
		bad := ""
		var at token.Pos = s.Pos()
		for _, w := range W {
			hits := core.PathAvoidingFrom(g,
				func(n ast.Node) bool { return core.NodeHas(n, func(x ast.Node) bool { return x == ast.Node(s) }) },
				func(ast.Node) bool { return false },
				func(n ast.Node) bool { return core.NodeHas(n, func(x ast.Node) bool { return x == ast.Node(w) }) })
			if len(hits) > 0 {
				bad, at = core.ExprString(w.Fun)+" (writes "+wrote[w]+")", w.Pos()
			}
		}
		c.Check(bad == "", rule, fmt.Sprintf("%s snapshot #%d (%s) is taken after the negotiation", f.Name(), i+1, core.ExprString(s.Fun)), at,
			"the Adj-RIB-In is created from the session attributes and afterwards "+bad+" changes what they were read from: the table runs with options the session did not negotiate")
	}
}
