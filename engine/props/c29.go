package props

import (
	"go/ast"
	"go/constant"
	"go/token"
	"go/types"
	"strings"

	"verif/engine/core"
)

func init() {
	Register(&Prop{
		Meta: core.Meta{
			ID: "C29", Title: "The merged RIB holds a route exactly while some source advertises it", Level: "other",
			Technique:   "typed-AST guard extraction: slice-used-as-set discipline (membership-guarded append or remove-all), install/remove control-dependent on first-source / no-source-left",
			DesignRef:   "DESIGN.md §4 C29",
			Decided:     "(0) removeSource deletes exactly the element at the index getSourceIndex returned (table of slice-deletion idioms); (1) the per-route source list is a set: routeContainer.addSource appends only under a dominating `source not yet present` test (or removeSource removes every occurrence), so a repeated advertisement followed by one withdrawal cannot leave a phantom source; (2) MergedLocRIB.AddRoute installs into the Loc-RIB exactly when the route hash was absent and otherwise only adds the source; (3) _delRoute removes from the Loc-RIB and deletes the container exactly under `no source left`, after removing the source; (4) all accesses to the route map happen under routesMu (every exported method that touches it locks it).",
			NotDecided:  "presence ⇔ advertised over all interleavings of sources (history-quantified); hash collisions of the route hash.",
			TrustedBase: stdTrusted,
		},
		Run: runC29,
		Controls: []Control{
			{Name: "drop-all-skipped-for-sources-believed-empty", File: "routingtable/mergedlocrib/mergedlocrib.go", Old: "\tfor h, rc := range rtm.routes {\n\t\trtm._delRoute(h, src, rc.route)\n\t}\n", New: "\tif src == nil {\n\t\treturn\n\t}\n\tfor h, rc := range rtm.routes {\n\t\trtm._delRoute(h, src, rc.route)\n\t}\n", Expect: "source-drop-visits-every-route"},
			{Name: "removal-by-decision-equality", File: "route/route.go", Old: "\t\tif paths[j].Compare(remove) {\n", New: "\t\tif paths[j].Equal(remove) {\n", Expect: "decision-equality-is-not-identity"},
			{Name: "source-kept-on-graceful-stop", File: "risclient/risclient.go", Old: "\tdefer r.processDownEvent()\n\n\tfor {\n\t\tif r.stopped() {\n\t\t\treturn nil\n\t\t}\n", New: "\tfor {\n\t\tif r.stopped() {\n\t\t\treturn nil\n\t\t}\n\t\tdefer r.processDownEvent()\n", Expect: "source-dropped-when-stream-ends"},
			{Name: "remove-source-truncates-behind-the-gap", File: "routingtable/mergedlocrib/routecontainer.go", Old: "\trc.sources[i] = rc.sources[len(rc.sources)-1]\n\trc.sources = rc.sources[:len(rc.sources)-1]\n", New: "\trc.sources = append(rc.sources[:i], rc.sources[len(rc.sources)-1])\n", Expect: "source-removed-is-the-one-found"},
			{Name: "refactor-remove-source-by-splice", Silent: true, File: "routingtable/mergedlocrib/routecontainer.go", Old: "\trc.sources[i] = rc.sources[len(rc.sources)-1]\n\trc.sources = rc.sources[:len(rc.sources)-1]\n", New: "\trc.sources = append(rc.sources[:i], rc.sources[i+1:]...)\n"},
			{Name: "addsource-unconditional", File: "routingtable/mergedlocrib/routecontainer.go", Old: "\tif rc.getSourceIndex(src) >= 0 {\n\t\treturn\n\t}\n", New: "", Expect: "source-list-is-a-set"},
			{Name: "delroute-ignores-remaining-sources", File: "routingtable/mergedlocrib/mergedlocrib.go", Old: "\tif rtm.routes[h].srcCount() > 0 {\n\t\treturn\n\t}\n", New: "", Expect: "remove-iff-no-source-left"},
		},
	})
}

// impliesNegative: does `call OP k` having truth value t imply call < 0, given call ≥ -1?
func impliesNegative(op token.Token, k int64, truth bool) bool {
	sat := func(v int64) bool {
		var r bool
		switch op {
		case token.LSS:
			r = v < k
		case token.LEQ:
			r = v <= k
		case token.GTR:
			r = v > k
		case token.GEQ:
			r = v >= k
		case token.EQL:
			r = v == k
		case token.NEQ:
			r = v != k
		default:
			return true // unknown operator: be conservative (not implied)
		}
		return r == truth
	}
	if !sat(-1) {
		return false
	}
	for _, v := range []int64{0, 1, 2, 7, 1 << 20} {
		if sat(v) {
			return false
		}
	}
	return true
}

func runC29(c *core.Ctx) {
	decisionEqualityIsNotIdentity(c, "decision-equality-is-not-identity")
	p := c.P
	sourceDroppedWhenStreamEnds(c)
	mergedKeyAndDropAll(c)
	const pkg = "routingtable/mergedlocrib"
	src := p.Field(pkg, "routeContainer", "sources")
	add := c.MustFunc(pkg + ".(*routeContainer).addSource")
	rem := c.MustFunc(pkg + ".(*routeContainer).removeSource")
	idx := c.MustFunc(pkg + ".(*routeContainer).getSourceIndex")
	if src == nil || add == nil || rem == nil {
		c.Undecided("anchor", pkg+".routeContainer.sources", token.NoPos, "anchor not found")
		return
	}
	// (0) removeSource takes out exactly the source it looked up: deletion idiom with the index returned by getSourceIndex
	if idx != nil {
		var idxObjs []types.Object
		ast.Inspect(rem.Decl.Body, func(n ast.Node) bool {
			as, ok := n.(*ast.AssignStmt)
			if !ok || len(as.Lhs) != 1 || len(as.Rhs) != 1 {
				return true
			}
			if call, ok := core.Unparen(as.Rhs[0]).(*ast.CallExpr); ok && core.Callee(rem.Pkg, call) == idx.Obj {
				if o := core.ObjOf(rem.Pkg, as.Lhs[0]); o != nil {
					idxObjs = append(idxObjs, o)
				}
			}
			return true
		})
		isIdx := func(e ast.Expr) bool {
			o := core.ObjOf(rem.Pkg, e)
			for _, x := range idxObjs {
				if o == x && o != nil {
					return true
				}
			}
			return false
		}
		if len(idxObjs) == 0 {
			c.Undecided("source-removed-is-the-one-found", rem.Name(), rem.Decl.Pos(), "removeSource does not obtain the index from getSourceIndex")
		} else {
			ok, wrong, pos := sliceDeletion(rem, src, isIdx, rem.Decl.Body)
			if wrong == "" && !ok {
				wrong = "the deletion is not one of the recognised idioms (shift+truncate, append(L[:i], L[i+1:]...), swap-with-last+truncate)"
			}
			c.Check(ok, "source-removed-is-the-one-found", rem.Name()+" deletes the source at the index it looked up", pos, wrong+": other sources of the route are dropped from the list (or the withdrawn one stays), so the route is removed from the merged RIB while a source still advertises it, or kept after the last one withdrew")
		}
	}
	// (1)
	removeAll := false
	ast.Inspect(rem.Decl.Body, func(n ast.Node) bool {
		switch n.(type) {
		case *ast.ForStmt, *ast.RangeStmt:
			// a loop in removeSource whose body stores into sources ⇒ treated as remove-all
			ast.Inspect(n, func(m ast.Node) bool {
				if as, ok := m.(*ast.AssignStmt); ok {
					for _, l := range as.Lhs {
						if core.FieldOf(rem.Pkg, l) == src {
							removeAll = true
						}
					}
				}
				return true
			})
		}
		return true
	})
	nApp := 0
	ast.Inspect(add.Decl.Body, func(n ast.Node) bool {
		as, ok := n.(*ast.AssignStmt)
		if !ok {
			return true
		}
		for _, l := range as.Lhs {
			if core.FieldOf(add.Pkg, l) != src {
				continue
			}
			nApp++
			guarded := false
			for _, ft := range core.FactsAt(add, as) {
				be, ok := ft.Expr.(*ast.BinaryExpr)
				if !ok {
					continue
				}
				call, isCall := core.Unparen(be.X).(*ast.CallExpr)
				kv := core.ConstOf(add.Pkg, be.Y)
				if !isCall || kv == nil || idx == nil || core.Callee(add.Pkg, call) != idx.Obj {
					continue
				}
				// argument must be the source parameter
				if len(call.Args) != 1 || core.ObjOf(add.Pkg, call.Args[0]) != core.ParamObj(add, 0) {
					continue
				}
				k, _ := constant.Int64Val(kv)
				if impliesNegative(be.Op, k, ft.Truth) {
					guarded = true
				}
			}
			c.Check(guarded || removeAll, "source-list-is-a-set", add.Name()+" append to sources", as.Pos(),
				"addSource appends the source unconditionally while removeSource removes a single occurrence: after the same source advertises a route twice and withdraws it once (or is dropped), a phantom entry keeps the route in the merged RIB although no source advertises it")
		}
		return true
	})
	c.Check(nApp >= 1, "source-list-is-a-set", add.Name()+" stores into sources", add.Decl.Pos(), "addSource no longer stores into the source list")
	// getSourceIndex returns a non-negative index only under equality with the needle
	if idx != nil {
		okIdx := false
		ast.Inspect(idx.Decl.Body, func(n ast.Node) bool {
			ret, ok := n.(*ast.ReturnStmt)
			if !ok || len(ret.Results) != 1 {
				return true
			}
			if v := core.ConstOf(idx.Pkg, ret.Results[0]); v != nil {
				return true
			}
			for _, ft := range core.FactsAt(idx, ret) {
				if be, ok := ft.Expr.(*ast.BinaryExpr); ok && be.Op == token.EQL && ft.Truth &&
					(core.ObjOf(idx.Pkg, be.Y) == core.ParamObj(idx, 0) || core.ObjOf(idx.Pkg, be.X) == core.ParamObj(idx, 0)) {
					okIdx = true
				}
			}
			return true
		})
		c.Check(okIdx, "source-list-is-a-set", idx.Name()+" returns an index only on equality", idx.Decl.Pos(), "getSourceIndex returns a non-constant index without a dominating equality test against the needle")
	}

	// (2) AddRoute
	addRoute := c.MustFunc(pkg + ".(*MergedLocRIB).AddRoute")
	delRoute := c.MustFunc(pkg + ".(*MergedLocRIB)._delRoute")
	routes := p.Field(pkg, "MergedLocRIB", "routes")
	locAdd := core.KeyIs("routingtable/locRIB.(*LocRIB).AddPath")
	locRem := core.KeyIs("routingtable/locRIB.(*LocRIB).RemovePath")
	if addRoute != nil && routes != nil {
		existsTrue := func(f *core.Fn, n ast.Node) (bool, bool) {
			// looks for a fact on a bool local defined by `_, exists := rtm.routes[h]`
			for _, ft := range core.FactsAt(f, n) {
				obj := core.ObjOf(f.Pkg, ft.Expr)
				if obj == nil {
					continue
				}
				for _, d := range core.DefsOf(f, obj) {
					if ie, ok := core.Unparen(d).(*ast.IndexExpr); ok && core.FieldOf(f.Pkg, ie.X) == routes {
						return ft.Truth, true
					}
				}
			}
			return false, false
		}
		for _, call := range core.Calls(addRoute.Pkg, addRoute.Decl.Body, locAdd) {
			t, ok := existsTrue(addRoute, call)
			c.Check(ok && !t, "install-iff-first-source", addRoute.Name()+" LocRIB.AddPath", call.Pos(), "the Loc-RIB install is not control-dependent on `route hash not yet present`")
		}
		for _, call := range core.Calls(addRoute.Pkg, addRoute.Decl.Body, func(f *types.Func) bool { return f == add.Obj }) {
			t, ok := existsTrue(addRoute, call)
			// after `if !exists {...; return}` the fact is exists == true
			c.Check(ok && t, "install-iff-first-source", addRoute.Name()+" addSource", call.Pos(), "addSource is not control-dependent on `route hash already present`")
		}
		c.Check(len(core.Calls(addRoute.Pkg, addRoute.Decl.Body, locAdd)) == 1 && len(core.Calls(addRoute.Pkg, addRoute.Decl.Body, func(f *types.Func) bool { return f == add.Obj })) == 1,
			"install-iff-first-source", addRoute.Name()+" has one install and one addSource", addRoute.Decl.Pos(), "AddRoute no longer has exactly one Loc-RIB install and one addSource call")
		// new container carries the first source
		nc := p.Func(pkg + ".newRouteContainer")
		okNC := false
		if nc != nil {
			ast.Inspect(nc.Decl.Body, func(n ast.Node) bool {
				kv, ok := n.(*ast.KeyValueExpr)
				if ok && core.ObjOf(nc.Pkg, kv.Key) == types.Object(src) {
					if cl, isLit := kv.Value.(*ast.CompositeLit); isLit && len(cl.Elts) == 1 && core.ObjOf(nc.Pkg, cl.Elts[0]) == core.ParamObj(nc, 1) {
						okNC = true
					}
				}
				return true
			})
		}
		c.Check(okNC, "install-iff-first-source", pkg+".newRouteContainer seeds the source list with the first source", token.NoPos, "newRouteContainer does not initialise the source list with exactly the given source")
	}
	// (3) _delRoute
	if delRoute != nil && rem != nil {
		cnt := p.Func(pkg + ".(*routeContainer).srcCount")
		g := p.CFG(delRoute)
		callNode := func(pred func(*types.Func) bool) func(ast.Node) bool {
			return func(n ast.Node) bool {
				return core.NodeHas(n, func(x ast.Node) bool {
					cl, ok := x.(*ast.CallExpr)
					return ok && core.Callee(delRoute.Pkg, cl) != nil && pred(core.Callee(delRoute.Pkg, cl))
				})
			}
		}
		isDelete := func(n ast.Node) bool {
			return core.NodeHas(n, func(x ast.Node) bool {
				cl, ok := x.(*ast.CallExpr)
				if !ok {
					return false
				}
				id, isId := cl.Fun.(*ast.Ident)
				if !isId {
					return false
				}
				b, isB := delRoute.Pkg.TypesInfo.Uses[id].(*types.Builtin)
				return isB && b.Name() == "delete" && len(cl.Args) == 2 && core.FieldOf(delRoute.Pkg, cl.Args[0]) == routes
			})
		}
		targets := []struct {
			name string
			is   func(ast.Node) bool
		}{{"LocRIB.RemovePath", callNode(locRem)}, {"delete(routes, h)", isDelete}}
		for _, tg := range targets {
			// must come after removeSource on every path
			bad := core.PathAvoiding(g, callNode(func(f *types.Func) bool { return f == rem.Obj }), tg.is)
			c.Check(len(bad) == 0, "remove-iff-no-source-left", delRoute.Name()+" "+tg.name+" after removeSource", delRoute.Decl.Pos(), "the removal can happen before the source was taken out of the list")
			// and under srcCount() == 0
			found := false
			ast.Inspect(delRoute.Decl.Body, func(n ast.Node) bool {
				if n == nil {
					return true
				}
				if !tg.is(n) {
					return true
				}
				if _, isStmt := n.(ast.Stmt); !isStmt {
					return true
				}
				if _, isBlock := n.(*ast.BlockStmt); isBlock {
					return true
				}
				found = true
				zero := false
				for _, ft := range core.FactsAt(delRoute, n) {
					be, ok := ft.Expr.(*ast.BinaryExpr)
					if !ok {
						continue
					}
					call, isCall := core.Unparen(be.X).(*ast.CallExpr)
					kv := core.ConstOf(delRoute.Pkg, be.Y)
					if !isCall || kv == nil || cnt == nil || core.Callee(delRoute.Pkg, call) != cnt.Obj {
						continue
					}
					k, _ := constant.Int64Val(kv)
					// does the fact imply count == 0 given count ≥ 0?  reuse impliesNegative on (count-1)
					if impliesNegative(be.Op, k-1, ft.Truth) {
						zero = true
					}
				}
				c.Check(zero, "remove-iff-no-source-left", delRoute.Name()+" "+tg.name+" only when no source is left", n.Pos(), "the route is removed from the merged RIB although sources may remain (or the test is gone)")
				return false
			})
			c.Check(found, "remove-iff-no-source-left", delRoute.Name()+" performs "+tg.name, delRoute.Decl.Pos(), "_delRoute no longer removes the route when the last source is gone")
		}
	}
	// (4) lock discipline on the route map
	mu := p.Field(pkg, "MergedLocRIB", "routesMu")
	for _, f := range p.MethodsOf(pkg, "MergedLocRIB") {
		if f.Decl.Body == nil || !f.Decl.Name.IsExported() || !core.MentionsField(f.Pkg, f.Decl.Body, routes) {
			continue
		}
		locked := false
		for _, st := range f.Decl.Body.List {
			if core.MentionsField(f.Pkg, st, routes) {
				break
			}
			ast.Inspect(st, func(n ast.Node) bool {
				if cl, ok := n.(*ast.CallExpr); ok {
					if se, ok := cl.Fun.(*ast.SelectorExpr); ok && (se.Sel.Name == "Lock" || se.Sel.Name == "RLock") && core.FieldOf(f.Pkg, se.X) == mu {
						locked = true
					}
				}
				return true
			})
		}
		c.Check(locked, "routes-under-lock", f.Name(), f.Decl.Pos(), "exported method touches the route map before taking routesMu")
	}
}

// sourceDroppedWhenStreamEnds: the RIS client feeds one source into the merged table.  However its service loop ends —
// stream error or a requested stop — the routes of that source must leave the merged table: every exit of the function
// that reads the stream passes (a deferred or direct call of) the function that drops all routes of the source.
func sourceDroppedWhenStreamEnds(c *core.Ctx) {
	const rule = "source-dropped-when-stream-ends"
	p := c.P
	const rc = "risclient"
	n := 0
	for _, f := range p.FuncsIn(rc) {
		if f.Decl.Body == nil || isTestFn(p, f) {
			continue
		}
		// reads the ObserveRIB stream
		reads := false
		ast.Inspect(f.Decl.Body, func(x ast.Node) bool {
			if call, ok := x.(*ast.CallExpr); ok {
				if se, ok := call.Fun.(*ast.SelectorExpr); ok && se.Sel.Name == "Recv" {
					if t := f.Pkg.TypesInfo.TypeOf(se.X); t != nil && strings.Contains(t.String(), "ObserveRIB") {
						reads = true
					}
				}
			}
			return true
		})
		if !reads {
			continue
		}
		n++
		c.Analysed(f)
		drops := func(o *types.Func) bool { return o.Name() == "DropAllBySrc" }
		c.Check(p.AlwaysCalls(f, drops), rule, f.Name()+" drops the source on every exit", f.Decl.Pos(),
			"the service loop of the RIS client can end (stop requested, stream error) without dropping this source's routes from the merged table: routes no upstream source advertises any more stay present")
	}
	c.Check(n >= 1, rule, "stream readers found", 0, "no function reading the ObserveRIB stream found")
}

// mergedKeyAndDropAll:
//
//	(a) the key under which the merged table files a route distinguishes everything that makes two advertised routes
//	    different routes — either the whole API message is hashed (proto.Marshal of the route itself), or, when the key
//	    is assembled from parts, no part is a digest that leaves the add-path identifier out (BGPPath.ComputeHash):
//	    two paths of one prefix that differ only in their identifier would share a container, and withdrawing one
//	    removes the route while the other is still advertised;
//	(b) a source that drops visits every container: DropAllBySrc has no return ahead of its walk over the route map (a
//	    per-source counter that says "holds nothing" can be wrong after repeated withdrawals).
func mergedKeyAndDropAll(c *core.Ctx) {
	p := c.P
	const pkg = "routingtable/mergedlocrib"
	const ruleA, ruleB = "route-key-distinguishes-advertised-routes", "source-drop-visits-every-route"
	if f := c.MustFunc(pkg + ".hashRoute"); f != nil {
		c.Analysed(f)
		par := core.ParamObj(f, 0)
		whole, lossy := false, ""
		for _, g := range p.ReachableFns(f) {
			if g.Decl.Body == nil || g.Pkg != f.Pkg {
				continue
			}
			ast.Inspect(g.Decl.Body, func(nd ast.Node) bool {
				call, ok := nd.(*ast.CallExpr)
				if !ok {
					return true
				}
				cal := core.Callee(g.Pkg, call)
				if cal == nil {
					return true
				}
				if cal.Name() == "Marshal" && g == f && len(call.Args) == 1 && core.ObjOf(g.Pkg, call.Args[0]) == par {
					whole = true
				}
				if cal.Name() == "ComputeHash" && core.RecvName(cal) == "BGPPath" {
					lossy = g.Name()
				}
				return true
			})
		}
		c.Check(whole || lossy == "", ruleA, f.Name()+" hashes the whole route or identifier-preserving parts", f.Decl.Pos(),
			"the container key is assembled from parts and uses BGPPath.ComputeHash (in "+lossy+"), which leaves the add-path identifier out: two advertised paths of one prefix that differ only in the identifier share one container — the second is never installed and the withdrawal of the first removes the route while the second is still advertised")
	}
	if f := c.MustFunc(pkg + ".(*MergedLocRIB).DropAllBySrc"); f != nil {
		c.Analysed(f)
		routes := p.Field(pkg, "MergedLocRIB", "routes")
		var loop *ast.RangeStmt
		ast.Inspect(f.Decl.Body, func(nd ast.Node) bool {
			if rs, ok := nd.(*ast.RangeStmt); ok && loop == nil && core.FieldOf(f.Pkg, rs.X) == routes && routes != nil {
				loop = rs
			}
			return true
		})
		c.Check(loop != nil, ruleB, f.Name()+" walks the route map", f.Decl.Pos(), "DropAllBySrc has no loop over MergedLocRIB.routes")
		if loop != nil {
			early := token.NoPos
			ast.Inspect(f.Decl.Body, func(nd ast.Node) bool {
				if r, ok := nd.(*ast.ReturnStmt); ok && r.Pos() < loop.Pos() {
					early = r.Pos()
				}
				return true
			})
			c.Check(early == token.NoPos && len(loopExits(loop.Body)) == 0, ruleB, f.Name()+" reaches and completes the walk on every path", early,
				"DropAllBySrc can return before (or break out of) its walk over the route map: routes whose only advertiser was the dropped source stay in the merged table")
		}
	}
}
