package props

import (
	"strings"

	"verif/engine/core"
)

const isisPkt = "protocols/isis/packet"

func init() {
	Register(&Prop{
		Meta: core.Meta{
			ID: "C30", Title: "IS-IS PDU decoding is total and encoding round-trips", Level: "other",
			Technique:   "panic-capable-operation enumeration with structural discharge (R-PCO), allocation-size and loop-form checks (R-TAINT) over everything statically reachable from the IS-IS decoders; reader/writer table agreement of the TLV registry",
			DesignRef:   "DESIGN.md §4 C30",
			Decided:     "(00) TLV lengths fit their octet: every constructor whose length is a·len(list)+b is called with a list bounded so that a·n+b ≤ 255 (slices of Min(K,…) elements, clamps, loop exit conditions), and every `TLVLength +=` is covered by a test that the sum stays ≤ 255, in place or through a sound Fits predicate tested before every Add (roll-over to a fresh TLV); NewCSNPs/NewPSNPs count down the entries they have handed out and getLSPEntries reads every LSP Entries TLV; (0) no reader of a TLV that bio-rd also constructs rejects, by a test on the TLV length, a length the constructor can produce (empty lists included); for every function reachable from packet.Decode, DecodeHeader, DecodeP2PHello, DecodeL2Hello, DecodeLSPDU, DecodeCSNP, DecodePSNP in protocols/isis/packet and util/decode: (1) every explicit index, slice, unchecked type assertion, division and panic() is discharged by a dominating guard; (2) every make() size is a constant, of a ≤16-bit type or bounded by bytes received, and contains no unguarded subtraction; (3) every loop makes progress; (4) every TLV type the reader dispatches on has a serializer that writes that type code and vice versa (table agreement).",
			NotDecided:  "round-trip equality of the content (value equality).",
			TrustedBase: append([]string{"bytes.Buffer / encoding/binary read functions return an error at end of input"}, stdTrusted...),
		},
		Run: runC30,
		Controls: []Control{
			{Name: "interface-addresses-deduplicated-after-the-length-was-taken", File: "protocols/isis/packet/tlv_ip_interface_addresses.go", Old: "\t\taddrs = append(addrs, pfx.Addr().ToUint32())\n", New: "\t\tif len(addrs) > 0 && addrs[len(addrs)-1] == pfx.Addr().ToUint32() {\n\t\t\tcontinue\n\t\t}\n\t\taddrs = append(addrs, pfx.Addr().ToUint32())\n", Expect: "declared-length-counts-what-is-stored"},
			{Name: "fits-test-adds-in-one-octet", File: "protocols/isis/packet/tlv_extended_is_reachability.go", Old: "\treturn int(e.TLVLength)+ExtendedISReachabilityNeighborMinLen+int(n.SubTLVLength) <= math.MaxUint8\n", New: "\treturn int(e.TLVLength+ExtendedISReachabilityNeighborMinLen+n.SubTLVLength) <= math.MaxUint8\n", Expect: "bound-test-sees-the-wide-sum"},
			{Name: "hostname-reader-trims-padding", File: "protocols/isis/packet/tlv_dynamic_hostname.go", Old: "\t\treturn nil, fmt.Errorf(\"unable to decode fields: %v\", err)\n\t}\n\n\treturn pdu, nil\n", New: "\t\treturn nil, fmt.Errorf(\"unable to decode fields: %v\", err)\n\t}\n\tpdu.Hostname = bytes.TrimRight(pdu.Hostname, \"\\x00\")\n\n\treturn pdu, nil\n", Expect: "reader-stores-what-it-read"},
			{Name: "snp-remaining-count-not-decreased", File: "protocols/isis/packet/csnp.go", Old: "\t\tleft -= end\n", New: "", Expect: "snp-chunks-cover-the-list"},
			{Name: "snp-entries-in-a-single-tlv", File: "protocols/isis/packet/csnp.go", Old: "\t\ttlvs := NewLSPEntriesTLVs(entries)\n", New: "\t\ttlvs := []TLV{NewLSPEntriesTLV(entries)}\n", Expect: "tlv-length-fits-octet"},
			{Name: "only-first-lsp-entries-tlv-read", File: "protocols/isis/packet/csnp.go", Old: "\t\tres = append(res, tlv.Value().(*LSPEntriesTLV).LSPEntries...)\n", New: "\t\tres = append(res, tlv.Value().(*LSPEntriesTLV).LSPEntries...)\n\t\tbreak\n", Expect: "snp-chunks-cover-the-list"},
			{Name: "reachability-added-without-fits", File: "protocols/isis/server/lsp.go", Old: "\t\t\tif !eipr.Fits(r) {\n\t\t\t\ttlvs = append(tlvs, eipr)\n\t\t\t\teipr = packet.NewExtendedIPReachabilityTLV()\n\t\t\t}\n\n", New: "", Expect: "tlv-length-fits-octet"},
			{Name: "fits-computed-in-the-octet", File: "protocols/isis/packet/tlv_extended_is_reachability.go", Old: "\treturn int(e.TLVLength)+ExtendedISReachabilityNeighborMinLen+int(n.SubTLVLength) <= math.MaxUint8\n", New: "\treturn e.TLVLength+ExtendedISReachabilityNeighborMinLen+n.SubTLVLength <= math.MaxUint8\n", Expect: "tlv-length-fits-octet"},
			{Name: "reader-rejects-empty-address-list", File: "protocols/isis/packet/tlv_ip_interface_addresses.go", Old: "\tpdu := &IPInterfaceAddressesTLV{\n\t\tTLVType:       tlvType,", New: "\tif tlvLength < 4 || tlvLength%4 != 0 {\n\t\treturn nil, fmt.Errorf(\"invalid length %d\", tlvLength)\n\t}\n\n\tpdu := &IPInterfaceAddressesTLV{\n\t\tTLVType:       tlvType,", Expect: "reader-accepts-what-the-constructor-builds"},
			{Name: "refactor-reader-rejects-partial-address", Silent: true, File: "protocols/isis/packet/tlv_ip_interface_addresses.go", Old: "\tpdu := &IPInterfaceAddressesTLV{\n\t\tTLVType:       tlvType,", New: "\tif tlvLength%4 != 0 {\n\t\treturn nil, fmt.Errorf(\"invalid length %d\", tlvLength)\n\t}\n\n\tpdu := &IPInterfaceAddressesTLV{\n\t\tTLVType:       tlvType,"},
			{Name: "protocol-ids-made-too-short", File: "protocols/isis/packet/tlv_protocols_supported.go", Old: "\t\tNetworkLayerProtocolIDs: make([]uint8, tlvLength),", New: "\t\tNetworkLayerProtocolIDs: make([]uint8, tlvLength/2),", Expect: "no-panic"},
			{Name: "tlv-loop-without-progress", File: "protocols/isis/packet/tlv.go", Old: "\theadFields := []interface{}{\n\t\t&tlvType,\n\t\t&tlvLength,\n\t}\n", New: "\theadFields := []interface{}{}\n", Expect: "bounded-loop"},
			{Name: "lsp-entries-indexed-by-byte-counter", File: "protocols/isis/packet/tlv_lsp_entries.go", Old: "\t\tpdu.LSPEntries = append(pdu.LSPEntries, e)", New: "\t\tpdu.LSPEntries = pdu.LSPEntries[:cap(pdu.LSPEntries)]\n\t\tpdu.LSPEntries[toRead/LSPEntryLen] = e", Expect: "no-panic"},
		},
	})
}

func isisScope(f *core.Fn) bool {
	path := f.Pkg.PkgPath
	return strings.HasSuffix(path, isisPkt) || strings.HasSuffix(path, "util/decode") || strings.HasSuffix(path, "util/decoder")
}

func runC30(c *core.Ctx) {
	boundTestSeesTheWideSum(c, "bound-test-sees-the-wide-sum", "protocols/isis/packet", "protocols/isis/server")
	readersStoreWhatTheyRead(c)
	declaredLengthCountsWhatIsStored(c)
	decoderAcceptsEncoderLengths(c)
	tlvLengthFitsOctet(c, "tlv-length-fits-octet")
	snpChunking(c, "snp-chunks-cover-the-list")
	tlvLengthAccumulationGuarded(c, "tlv-length-fits-octet")
	var roots []*core.Fn
	for _, k := range []string{"Decode", "DecodeHeader", "DecodeP2PHello", "DecodeL2Hello", "DecodeLSPDU", "DecodeCSNP", "DecodePSNP"} {
		if f := c.MustFunc(isisPkt + "." + k); f != nil {
			roots = append(roots, f)
		}
	}
	if len(roots) == 0 {
		return
	}
	nf, nops := decoderScope(c, "", roots, isisScope, nil)
	c.Check(nf >= 18, "scope", "functions reachable from the IS-IS decoders", roots[0].Decl.Pos(), "fewer functions reachable than confirmed by hand (18)")
	c.Check(nops >= 3, "scope", "panic-capable operations enumerated", roots[0].Decl.Pos(), "fewer explicit panic-capable operations than confirmed by hand")
}
