package props

import (
	"fmt"
	"go/ast"
	"go/constant"
	"go/token"
	"go/types"
	"strings"

	"verif/engine/core"
)

// decoderAcceptsEncoderLengths: for every TLV that bio-rd both builds (NewXTLV) and reads (readXTLV), no test on the TLV
// length in the reader rejects a length the constructor can produce.  The constructor's length expression gives the
// set: `uint8(len(x))·K + C` → C, K+C, 2K+C (the empty list included), a constant → that constant.  The reader's tests
// on its length parameter that lead to an error return are evaluated on those lengths.
func decoderAcceptsEncoderLengths(c *core.Ctx) {
	const rule = "reader-accepts-what-the-constructor-builds"
	p := c.P
	c.Floor(rule, 5)
	type ctor struct {
		f     *core.Fn
		cands []int64
		expr  string
	}
	ctors := map[*types.Named]ctor{}
	for _, f := range p.FuncsIn(isisPkt) {
		if f.Decl.Body == nil || isTestFn(p, f) || f.Decl.Recv != nil || !strings.HasPrefix(f.Decl.Name.Name, "New") {
			continue
		}
		ast.Inspect(f.Decl.Body, func(n ast.Node) bool {
			cl, ok := n.(*ast.CompositeLit)
			if !ok {
				return true
			}
			nt, _ := f.Pkg.TypesInfo.TypeOf(cl).(*types.Named)
			if nt == nil {
				return true
			}
			for _, el := range cl.Elts {
				kv, ok := el.(*ast.KeyValueExpr)
				if !ok || core.ExprString(kv.Key) != "TLVLength" {
					continue
				}
				if cands, ok := lengthCandidates(f, kv.Value); ok {
					ctors[nt] = ctor{f, cands, core.ExprString(kv.Value)}
				}
			}
			return true
		})
	}
	for _, f := range p.FuncsIn(isisPkt) {
		if f.Decl.Body == nil || isTestFn(p, f) || !strings.HasPrefix(f.Decl.Name.Name, "read") || !strings.HasSuffix(f.Decl.Name.Name, "TLV") {
			continue
		}
		sig := f.Obj.Type().(*types.Signature)
		if sig.Results().Len() != 2 || sig.Params().Len() != 3 {
			continue
		}
		pt, ok := sig.Results().At(0).Type().(*types.Pointer)
		if !ok {
			continue
		}
		nt, _ := pt.Elem().(*types.Named)
		ct, ok := ctors[nt]
		if !ok {
			continue
		}
		lenPar := types.Object(sig.Params().At(2))
		c.Analysed(f)
		var eval func(e ast.Expr, v int64) int
		val := func(e ast.Expr, v int64) (int64, bool) {
			e = core.Unparen(e)
			if cv := core.ConstOf(f.Pkg, e); cv != nil && cv.Kind() == constant.Int {
				k, ok := constant.Int64Val(cv)
				return k, ok
			}
			if core.ObjOf(f.Pkg, e) == lenPar {
				return v, true
			}
			if call, ok := e.(*ast.CallExpr); ok && len(call.Args) == 1 { // conversions int(tlvLength)
				if tv, ok := f.Pkg.TypesInfo.Types[call.Fun]; ok && tv.IsType() && core.ObjOf(f.Pkg, call.Args[0]) == lenPar {
					return v, true
				}
			}
			if be, ok := e.(*ast.BinaryExpr); ok && be.Op == token.REM && core.ObjOf(f.Pkg, be.X) == lenPar {
				if cv := core.ConstOf(f.Pkg, be.Y); cv != nil {
					if k, ok := constant.Int64Val(cv); ok && k != 0 {
						return v % k, true
					}
				}
			}
			return 0, false
		}
		eval = func(e ast.Expr, v int64) int {
			e = core.Unparen(e)
			switch x := e.(type) {
			case *ast.UnaryExpr:
				if x.Op == token.NOT {
					if r := eval(x.X, v); r >= 0 {
						return 1 - r
					}
				}
			case *ast.BinaryExpr:
				switch x.Op {
				case token.LAND:
					a, b := eval(x.X, v), eval(x.Y, v)
					if a == 0 || b == 0 {
						return 0
					}
					if a == 1 && b == 1 {
						return 1
					}
					return -1
				case token.LOR:
					a, b := eval(x.X, v), eval(x.Y, v)
					if a == 1 || b == 1 {
						return 1
					}
					if a == 0 && b == 0 {
						return 0
					}
					return -1
				case token.EQL, token.NEQ, token.LSS, token.LEQ, token.GTR, token.GEQ:
					a, okA := val(x.X, v)
					b, okB := val(x.Y, v)
					if !okA || !okB {
						return -1
					}
					var r bool
					switch x.Op {
					case token.EQL:
						r = a == b
					case token.NEQ:
						r = a != b
					case token.LSS:
						r = a < b
					case token.LEQ:
						r = a <= b
					case token.GTR:
						r = a > b
					case token.GEQ:
						r = a >= b
					}
					return btoi(r)
				}
			}
			return -1
		}
		// error returns whose dominating facts are all evaluable on the length and hold for a candidate
		var rejected []string
		pos := f.Decl.Pos()
		ast.Inspect(f.Decl.Body, func(n ast.Node) bool {
			ret, ok := n.(*ast.ReturnStmt)
			if !ok || len(ret.Results) != 2 {
				return true
			}
			if id, ok := core.Unparen(ret.Results[1]).(*ast.Ident); ok && id.Name == "nil" {
				return true
			}
			facts := core.CtlFactsAt(f, ret)
			if len(facts) == 0 {
				return true
			}
			for _, v := range ct.cands {
				all, any := true, false
				for _, ft := range facts {
					if ft.Expr == nil {
						all = false
						continue
					}
					r := eval(ft.Expr, v)
					if r < 0 {
						all = false
						continue
					}
					any = true
					if (r == 1) != ft.Truth {
						all = false
					}
				}
				if all && any {
					rejected = append(rejected, fmt.Sprint(v))
					pos = ret.Pos()
				}
			}
			return true
		})
		c.Check(len(rejected) == 0, rule, fmt.Sprintf("%s accepts the lengths %s builds (%s → %v…)", f.Name(), ct.f.Decl.Name.Name, ct.expr, ct.cands), pos,
			"the reader rejects TLV length(s) ["+strings.Join(rejected, " ")+"] that bio-rd's own constructor produces (e.g. the empty list): a hello or LSP bio-rd serializes no longer decodes")
	}
}

// lengthCandidates: the first members of the set of values the constructor's TLVLength expression can take.
func lengthCandidates(f *core.Fn, e ast.Expr) ([]int64, bool) {
	e = core.Unparen(e)
	if cv := core.ConstOf(f.Pkg, e); cv != nil && cv.Kind() == constant.Int {
		k, ok := constant.Int64Val(cv)
		return []int64{k}, ok
	}
	// linear form a·len + b over one len()
	var lin func(e ast.Expr) (a, b int64, ok bool)
	lin = func(e ast.Expr) (int64, int64, bool) {
		e = core.Unparen(e)
		if cv := core.ConstOf(f.Pkg, e); cv != nil && cv.Kind() == constant.Int {
			k, ok := constant.Int64Val(cv)
			return 0, k, ok
		}
		switch x := e.(type) {
		case *ast.CallExpr:
			if id, ok := x.Fun.(*ast.Ident); ok && id.Name == "len" && len(x.Args) == 1 {
				return 1, 0, true
			}
			if tv, ok := f.Pkg.TypesInfo.Types[x.Fun]; ok && tv.IsType() && len(x.Args) == 1 {
				return lin(x.Args[0])
			}
		case *ast.BinaryExpr:
			a1, b1, ok1 := lin(x.X)
			a2, b2, ok2 := lin(x.Y)
			if !ok1 || !ok2 {
				return 0, 0, false
			}
			switch x.Op {
			case token.ADD:
				return a1 + a2, b1 + b2, true
			case token.MUL:
				if a1 == 0 {
					return b1 * a2, b1 * b2, true
				}
				if a2 == 0 {
					return a1 * b2, b1 * b2, true
				}
			}
		}
		return 0, 0, false
	}
	a, b, ok := lin(e)
	if !ok || a == 0 {
		return nil, false
	}
	return []int64{b, a + b, 2*a + b, 3*a + b}, true
}
