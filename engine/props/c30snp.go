package props

import (
	"fmt"
	"go/ast"
	"go/constant"
	"go/token"
	"go/types"
	"strings"

	"verif/engine/core"
)

// tlvLengthFitsOctet: a TLV length is ONE octet.  For every TLV constructor whose length is a·len(list)+b, every call
// site passes a list whose length is bounded so that a·n+b ≤ 255: a slice x[:n] / x[i:i+n] with n = Min(K, …) or a
// constant, or a list literal.  An unbounded list makes the length octet wrap: the PDU no longer decodes.
// Constructors fed from configuration/LSDB size without a bound are reported (they need the list to be split over
// several TLVs or LSP fragments).
func tlvLengthFitsOctet(c *core.Ctx, rule string) {
	p := c.P
	c.Floor(rule, 3)
	for _, f := range p.FuncsIn(isisPkt) {
		if f.Decl.Body == nil || isTestFn(p, f) || f.Decl.Recv != nil || !strings.HasPrefix(f.Decl.Name.Name, "New") {
			continue
		}
		// length expression a·len(P)+b over a parameter P
		var a, b int64
		var par types.Object
		found := false
		ast.Inspect(f.Decl.Body, func(n ast.Node) bool {
			kv, ok := n.(*ast.KeyValueExpr)
			if !ok || core.ExprString(kv.Key) != "TLVLength" {
				return true
			}
			if aa, bb, pp, ok := linearLen(f, kv.Value); ok && aa > 0 && pp != nil && isParamExpr(f, pp) {
				a, b, par, found = aa, bb, core.ObjOf(f.Pkg, pp), true
			}
			return true
		})
		if !found {
			continue
		}
		maxN := (255 - b) / a
		// the constructor clamps the list itself: `if len(P) > K { P = P[:K] }` before the length is taken
		if k, ok := clampOf(f, par); ok && k <= maxN {
			c.Hold(rule, fmt.Sprintf("%s clamps its list to %d elements", f.Name(), k), f.Decl.Pos(), fmt.Sprintf("TLV length %d·n+%d ≤ 255 for n ≤ %d", a, b, maxN))
			continue
		}
		idx := -1
		sig := f.Obj.Type().(*types.Signature)
		for i := 0; i < sig.Params().Len(); i++ {
			if types.Object(sig.Params().At(i)) == par {
				idx = i
			}
		}
		if idx < 0 {
			continue
		}
		sites := callSitesOf(p, f)
		for _, cs := range sites {
			if idx >= len(cs.call.Args) {
				continue
			}
			c.Analysed(cs.f)
			arg := cs.call.Args[idx]
			ub, ok := lenUpperBound(cs.f, arg, 0)
			if !ok {
				ub, ok = lenBoundFromControl(cs.f, cs.call, arg)
			}
			construct := fmt.Sprintf("%s builds %s from %s", cs.f.Name(), f.Decl.Name.Name, core.ExprString(arg))
			why := fmt.Sprintf("the list handed to %s has no bound (the TLV length %d·n+%d must stay ≤ 255, i.e. n ≤ %d)", f.Decl.Name.Name, a, b, maxN)
			if ok {
				why = fmt.Sprintf("the list handed to %s can hold up to %d elements, the TLV length %d·n+%d fits an octet only for n ≤ %d", f.Decl.Name.Name, ub, a, b, maxN)
			}
			c.Check(ok && ub <= maxN, rule, construct, cs.call.Pos(), why+": with a longer list the one-octet length wraps around and the serialized PDU no longer decodes to what was put in")
		}
	}
}

// linearLen: e = a·len(X)+b (through integer conversions); returns X.
func linearLen(f *core.Fn, e ast.Expr) (int64, int64, ast.Expr, bool) {
	e = core.Unparen(e)
	if cv := core.ConstOf(f.Pkg, e); cv != nil && cv.Kind() == constant.Int {
		k, ok := constant.Int64Val(cv)
		return 0, k, nil, ok
	}
	switch x := e.(type) {
	case *ast.CallExpr:
		if id, ok := x.Fun.(*ast.Ident); ok && id.Name == "len" && len(x.Args) == 1 {
			return 1, 0, core.Unparen(x.Args[0]), true
		}
		if tv, ok := f.Pkg.TypesInfo.Types[x.Fun]; ok && tv.IsType() && len(x.Args) == 1 {
			return linearLen(f, x.Args[0])
		}
	case *ast.BinaryExpr:
		a1, b1, x1, ok1 := linearLen(f, x.X)
		a2, b2, x2, ok2 := linearLen(f, x.Y)
		if !ok1 || !ok2 {
			return 0, 0, nil, false
		}
		xx := x1
		if xx == nil {
			xx = x2
		}
		switch x.Op {
		case token.ADD:
			return a1 + a2, b1 + b2, xx, true
		case token.MUL:
			if a1 == 0 {
				return b1 * a2, b1 * b2, xx, true
			}
			if a2 == 0 {
				return a1 * b2, b1 * b2, xx, true
			}
		}
	}
	return 0, 0, nil, false
}

// intUpperBound: a constant, or Min(…) with a constant argument, or a local defined as one of those.
func intUpperBound(f *core.Fn, e ast.Expr, depth int) (int64, bool) {
	e = core.Unparen(e)
	if depth > 4 {
		return 0, false
	}
	if cv := core.ConstOf(f.Pkg, e); cv != nil && cv.Kind() == constant.Int {
		k, ok := constant.Int64Val(cv)
		return k, ok
	}
	switch x := e.(type) {
	case *ast.CallExpr:
		name := ""
		if sel, ok := x.Fun.(*ast.SelectorExpr); ok {
			name = sel.Sel.Name
		} else if id, ok := x.Fun.(*ast.Ident); ok {
			name = id.Name
		}
		if (name == "Min" || name == "min") && len(x.Args) == 2 {
			best, have := int64(0), false
			for _, a := range x.Args {
				if k, ok := intUpperBound(f, a, depth+1); ok && (!have || k < best) {
					best, have = k, true
				}
			}
			return best, have
		}
		if tv, ok := f.Pkg.TypesInfo.Types[x.Fun]; ok && tv.IsType() && len(x.Args) == 1 {
			return intUpperBound(f, x.Args[0], depth+1)
		}
	case *ast.Ident:
		o := f.Pkg.TypesInfo.ObjectOf(x)
		defs := core.DefsOf(f, o)
		if len(defs) == 0 {
			return 0, false
		}
		best, have := int64(0), false
		for _, d := range defs {
			k, ok := intUpperBound(f, d, depth+1)
			if !ok {
				return 0, false
			}
			if !have || k > best {
				best, have = k, true
			}
		}
		return best, have
	}
	return 0, false
}

// lenUpperBound: an upper bound of len(e).
func lenUpperBound(f *core.Fn, e ast.Expr, depth int) (int64, bool) {
	e = core.Unparen(e)
	if depth > 4 {
		return 0, false
	}
	switch x := e.(type) {
	case *ast.CompositeLit:
		return int64(len(x.Elts)), true
	case *ast.SliceExpr:
		if x.High == nil {
			return lenUpperBound(f, x.X, depth+1)
		}
		if x.Low == nil {
			return intUpperBound(f, x.High, 0)
		}
		// x[lo : lo+n]
		if be, ok := core.Unparen(x.High).(*ast.BinaryExpr); ok && be.Op == token.ADD && core.SameExpr(f.Pkg, core.Unparen(be.X), core.Unparen(x.Low)) {
			return intUpperBound(f, be.Y, 0)
		}
		return intUpperBound(f, x.High, 0)
	case *ast.Ident:
		o := f.Pkg.TypesInfo.ObjectOf(x)
		defs := core.DefsOf(f, o)
		if len(defs) == 0 {
			return 0, false
		}
		best, have := int64(0), false
		for _, d := range defs {
			k, ok := lenUpperBound(f, d, depth+1)
			if !ok {
				return 0, false
			}
			if !have || k > best {
				best, have = k, true
			}
		}
		return best, have
	}
	return 0, false
}

// snpChunking: NewCSNPs/NewPSNPs cut the entry list into per-PDU chunks `entries[start : start+Min(perPDU, left)]`.
// The remaining count must go down by what was handed out, otherwise the second chunk runs past the end of the list
// (slice bounds panic as soon as the list does not fill the last PDU) — and all TLVs of a PDU are read back.
func snpChunking(c *core.Ctx, rule string) {
	c.Floor(rule, 2)
	for _, k := range []string{"NewCSNPs", "NewPSNPs"} {
		f := c.MustFunc(isisPkt + "." + k)
		if f == nil {
			continue
		}
		c.Analysed(f)
		// locals initialised from len(<param>)
		ast.Inspect(f.Decl.Body, func(n ast.Node) bool {
			fs, ok := n.(*ast.ForStmt)
			if !ok {
				return true
			}
			for _, call := range core.CallsAll(f.Pkg, fs.Body, func(o *types.Func) bool { return o.Name() == "Min" }) {
				for _, a := range call.Args {
					id, ok := core.Unparen(a).(*ast.Ident)
					if !ok {
						continue
					}
					o := f.Pkg.TypesInfo.ObjectOf(id)
					fromLen := false
					for _, d := range core.DefsOf(f, o) {
						if a1, _, x, ok := linearLen(f, d); ok && a1 == 1 && x != nil && isParamExpr(f, x) {
							fromLen = true
						}
					}
					if !fromLen {
						continue
					}
					// decreased inside the loop?
					dec := false
					ast.Inspect(fs.Body, func(m ast.Node) bool {
						as, ok := m.(*ast.AssignStmt)
						if !ok || len(as.Lhs) != 1 || core.ObjOf(f.Pkg, as.Lhs[0]) != o {
							return true
						}
						if as.Tok == token.SUB_ASSIGN {
							dec = true
						}
						if as.Tok == token.ASSIGN {
							if be, ok := core.Unparen(as.Rhs[0]).(*ast.BinaryExpr); ok && be.Op == token.SUB && core.ObjOf(f.Pkg, be.X) == o {
								dec = true
							}
						}
						return true
					})
					c.Check(dec, rule, f.Name()+" counts down the entries it has handed out (`"+id.Name+"`)", call.Pos(),
						"the number of entries left (`"+id.Name+"`) bounds every chunk but is never decreased in the loop: the chunk for the second PDU is as long as the first and runs past the end of the list — a slice bounds panic whenever the entries do not exactly fill the PDUs (e.g. 100 LSPs at MTU 1492)")
				}
			}
			return true
		})
	}
	// every LSP Entries TLV of a PDU is read back
	if g := c.MustFunc(isisPkt + ".getLSPEntries"); g != nil {
		c.Analysed(g)
		n := 0
		ast.Inspect(g.Decl.Body, func(nd ast.Node) bool {
			rs, ok := nd.(*ast.RangeStmt)
			if !ok {
				return true
			}
			n++
			ex := loopExits(rs.Body)
			pos := rs.Pos()
			if len(ex) > 0 {
				pos = ex[0].Pos()
			}
			c.Check(len(ex) == 0, rule, g.Name()+" collects the entries of every LSP Entries TLV", pos, "the walk over the TLVs stops at the first LSP Entries TLV: a CSNP/PSNP with more than 15 entries carries several of them (one octet of TLV length), the entries of the later ones are ignored")
			return true
		})
		c.Check(n >= 1, rule, g.Name()+" walks the TLVs", g.Decl.Pos(), "no loop over the TLVs found")
	}
}

// lenCmpConst: e is `len(x) OP K`; returns x, OP, K.
func lenCmpConst(f *core.Fn, e ast.Expr) (ast.Expr, token.Token, int64, bool) {
	be, ok := core.Unparen(e).(*ast.BinaryExpr)
	if !ok {
		return nil, 0, 0, false
	}
	call, ok := core.Unparen(be.X).(*ast.CallExpr)
	if !ok || len(call.Args) != 1 {
		return nil, 0, 0, false
	}
	if id, ok := call.Fun.(*ast.Ident); !ok || id.Name != "len" {
		return nil, 0, 0, false
	}
	cv := core.ConstOf(f.Pkg, be.Y)
	if cv == nil || cv.Kind() != constant.Int {
		return nil, 0, 0, false
	}
	k, exact := constant.Int64Val(cv)
	return core.Unparen(call.Args[0]), be.Op, k, exact
}

// clampOf: the function body starts the use of parameter par with `if len(par) > K { par = par[:K] }`.
func clampOf(f *core.Fn, par types.Object) (int64, bool) {
	for _, st := range f.Decl.Body.List {
		ifs, ok := st.(*ast.IfStmt)
		if !ok || ifs.Else != nil || len(ifs.Body.List) != 1 {
			continue
		}
		x, op, k, ok := lenCmpConst(f, ifs.Cond)
		if !ok || core.ObjOf(f.Pkg, x) != par || (op != token.GTR && op != token.GEQ) {
			continue
		}
		as, ok := ifs.Body.List[0].(*ast.AssignStmt)
		if !ok || len(as.Lhs) != 1 || len(as.Rhs) != 1 || core.ObjOf(f.Pkg, as.Lhs[0]) != par {
			continue
		}
		se, ok := core.Unparen(as.Rhs[0]).(*ast.SliceExpr)
		if !ok || se.Low != nil || core.ObjOf(f.Pkg, se.X) != par {
			continue
		}
		if hv := core.ConstOf(f.Pkg, se.High); hv != nil {
			if h, exact := constant.Int64Val(hv); exact && h <= k {
				return h, true
			}
		}
	}
	return 0, false
}

// lenBoundFromControl: a bound on len(arg) at the call from control flow: a dominating test, or a preceding loop
// `for len(arg) > K { … }` without early exit (on leaving it len(arg) ≤ K).
func lenBoundFromControl(f *core.Fn, call *ast.CallExpr, arg ast.Expr) (int64, bool) {
	for _, ft := range core.FactsAt(f, call) {
		if ft.Expr == nil {
			continue
		}
		x, op, k, ok := lenCmpConst(f, ft.Expr)
		if !ok || !core.SameExpr(f.Pkg, x, core.Unparen(arg)) {
			continue
		}
		switch {
		case op == token.GTR && !ft.Truth, op == token.LEQ && ft.Truth:
			return k, true
		case op == token.GEQ && !ft.Truth, op == token.LSS && ft.Truth:
			return k - 1, true
		}
	}
	obj := core.ObjOf(f.Pkg, arg)
	if obj == nil {
		return 0, false
	}
	var best int64
	found := false
	ast.Inspect(f.Decl.Body, func(n ast.Node) bool {
		fs, ok := n.(*ast.ForStmt)
		if !ok || fs.End() > call.Pos() || fs.Cond == nil || len(loopExits(fs.Body)) > 0 {
			return true
		}
		x, op, k, ok := lenCmpConst(f, fs.Cond)
		if !ok || core.ObjOf(f.Pkg, x) != obj {
			return true
		}
		// not re-assigned between the loop and the call
		reassigned := false
		ast.Inspect(f.Decl.Body, func(m ast.Node) bool {
			if as, ok := m.(*ast.AssignStmt); ok && as.Pos() > fs.End() && as.Pos() < call.Pos() {
				for _, l := range as.Lhs {
					if core.ObjOf(f.Pkg, l) == obj {
						reassigned = true
					}
				}
			}
			return true
		})
		if reassigned {
			return true
		}
		switch op {
		case token.GTR:
			best, found = k, true
		case token.GEQ:
			best, found = k-1, true
		}
		return true
	})
	return best, found
}

// tlvLengthAccumulationGuarded: where a TLV length octet is built up by `+=`, the addition is covered by a test that the
// sum stays within one octet — in the function itself (dominating the addition) or, for an exported Add method with a
// sibling Fits(x) predicate, at every call site (`if !t.Fits(x) { start a new TLV }` before t.Add(x)).
func tlvLengthAccumulationGuarded(c *core.Ctx, rule string) {
	p := c.P
	c.Floor(rule, 3)
	for _, f := range p.FuncsIn(isisPkt) {
		if f.Decl.Body == nil || isTestFn(p, f) {
			continue
		}
		ast.Inspect(f.Decl.Body, func(n ast.Node) bool {
			as, ok := n.(*ast.AssignStmt)
			if !ok || as.Tok != token.ADD_ASSIGN || len(as.Lhs) != 1 {
				return true
			}
			fv := core.FieldOf(f.Pkg, as.Lhs[0])
			if fv == nil || fv.Name() != "TLVLength" {
				return true
			}
			c.Analysed(f)
			construct := f.Name() + " adds to " + core.ExprString(as.Lhs[0])
			// (a) guarded in place: a dominating comparison that mentions the length field and a constant ≤ 255
			inPlace := false
			for _, ft := range core.FactsAt(f, as) {
				if ft.Expr == nil {
					continue
				}
				mentions := core.NodeHas(ft.Expr, func(m ast.Node) bool {
					e, ok := m.(ast.Expr)
					return ok && core.FieldOf(f.Pkg, e) == fv
				})
				if be, ok := core.Unparen(ft.Expr).(*ast.BinaryExpr); ok && mentions {
					if cv := core.ConstOf(f.Pkg, be.Y); cv != nil {
						if k, exact := constant.Int64Val(cv); exact && k <= 255 && ((be.Op == token.GTR && !ft.Truth) || (be.Op == token.LEQ && ft.Truth)) {
							inPlace = true
						}
					}
				}
			}
			if inPlace {
				c.Hold(rule, construct, as.Pos(), "dominated by a test that the sum stays ≤ 255")
				return true
			}
			// (b) Fits at every call site
			var fits *core.Fn
			if f.Decl.Recv != nil {
				fits = p.Func(strings.TrimSuffix(f.Name(), f.Decl.Name.Name) + "Fits")
			}
			sites := callSitesOf(p, f)
			okAll := fits != nil && len(sites) > 0 && fitsIsSound(fits, fv)
			why := "there is no test that the sum fits an octet, neither here nor (through a Fits predicate) at the call sites"
			for _, cs := range sites {
				if !okAll {
					break
				}
				sel, isSel := cs.call.Fun.(*ast.SelectorExpr)
				covered := false
				if isSel && len(cs.call.Args) == 1 {
					// on every path to the call: Fits(recv, arg) was true, or the receiver was re-bound to a fresh TLV after it was false
					covered = fitsEstablished(cs.f, cs.call, sel.X, cs.call.Args[0], fits)
				}
				if !covered {
					okAll = false
					why = "the call in " + cs.f.Name() + " (" + p.Pos(cs.call.Pos()) + ") is not preceded by the Fits test for the same TLV and element"
				}
			}
			c.Check(okAll, rule, construct, as.Pos(), why+": with enough elements the one-octet TLV length wraps around and the LSP/hello carrying the TLV cannot be decoded by anybody")
			return true
		})
	}
}

// fitsIsSound: Fits returns `int(len)+… <= 255` (a comparison of a sum that mentions the length field with a constant ≤ 255).
func fitsIsSound(fits *core.Fn, fv *types.Var) bool {
	ok := false
	ast.Inspect(fits.Decl.Body, func(n ast.Node) bool {
		ret, isRet := n.(*ast.ReturnStmt)
		if !isRet || len(ret.Results) != 1 {
			return true
		}
		be, isB := core.Unparen(ret.Results[0]).(*ast.BinaryExpr)
		if !isB || be.Op != token.LEQ {
			return true
		}
		cv := core.ConstOf(fits.Pkg, be.Y)
		if cv == nil {
			return true
		}
		k, exact := constant.Int64Val(cv)
		mentions := core.NodeHas(be.X, func(m ast.Node) bool {
			e, isE := m.(ast.Expr)
			return isE && core.FieldOf(fits.Pkg, e) == fv
		})
		// the sum must be computed in a type wider than the octet
		wide := false
		if t := fits.Pkg.TypesInfo.TypeOf(be.X); t != nil {
			if b, isBasic := t.Underlying().(*types.Basic); isBasic && b.Kind() != types.Uint8 && b.Kind() != types.Int8 {
				wide = true
			}
		}
		if exact && k <= 255 && mentions && wide {
			ok = true
		}
		return true
	})
	return ok
}

// fitsEstablished: the call recv.Add(arg) is reached only after recv.Fits(arg) was tested: either the test is a fact at
// the call, or the preceding statement is `if !recv.Fits(arg) { …; recv = <fresh> }`.
func fitsEstablished(f *core.Fn, call *ast.CallExpr, recv, arg ast.Expr, fits *core.Fn) bool {
	isFitsCall := func(e ast.Expr) bool {
		c2, ok := core.Unparen(e).(*ast.CallExpr)
		if !ok || core.Callee(f.Pkg, c2) != fits.Obj || len(c2.Args) != 1 {
			return false
		}
		sel, ok := c2.Fun.(*ast.SelectorExpr)
		return ok && core.SameExpr(f.Pkg, core.Unparen(sel.X), core.Unparen(recv)) && core.SameExpr(f.Pkg, core.Unparen(c2.Args[0]), core.Unparen(arg))
	}
	for _, ft := range core.FactsAt(f, call) {
		if ft.Expr != nil && ft.Truth && isFitsCall(ft.Expr) {
			return true
		}
	}
	// roll-over form: the statement before the call's statement, in the same block
	path := core.PathTo(f.Decl.Body, call)
	for i := len(path) - 1; i > 0; i-- {
		blk, ok := path[i-1].(*ast.BlockStmt)
		if !ok {
			continue
		}
		st, ok := path[i].(ast.Stmt)
		if !ok {
			continue
		}
		for j, s := range blk.List {
			if s != st || j == 0 {
				continue
			}
			ifs, ok := blk.List[j-1].(*ast.IfStmt)
			if !ok || ifs.Else != nil {
				return false
			}
			u, ok := core.Unparen(ifs.Cond).(*ast.UnaryExpr)
			if !ok || u.Op != token.NOT || !isFitsCall(u.X) {
				return false
			}
			// the body re-binds the receiver to a constructor call
			rebound := false
			for _, bs := range ifs.Body.List {
				if as, ok := bs.(*ast.AssignStmt); ok && len(as.Lhs) == 1 && len(as.Rhs) == 1 && core.SameExpr(f.Pkg, core.Unparen(as.Lhs[0]), core.Unparen(recv)) {
					if c2, ok := core.Unparen(as.Rhs[0]).(*ast.CallExpr); ok && strings.HasPrefix(core.ExprString(c2.Fun), "packet.New") || strings.HasPrefix(core.ExprString(as.Rhs[0]), "New") {
						rebound = true
					}
				}
			}
			return rebound
		}
		break
	}
	return false
}

// readersStoreWhatTheyRead: a TLV/PDU reader that rewrites a field it has just decoded from that field's own value
// (trimming, normalising, clamping) returns content different from what the constructor/serializer put on the wire,
// while length fields keep the wire value: serialize→decode no longer yields the same content.  Rule: in the reader
// functions of the IS-IS packet package no field of the value being decoded is assigned from an expression that reads
// the same field.
func readersStoreWhatTheyRead(c *core.Ctx) {
	const rule = "reader-stores-what-it-read"
	p := c.P
	const ipkt = "protocols/isis/packet"
	nFns, nBad := 0, 0
	for _, f := range p.FuncsIn(ipkt) {
		if f.Decl.Body == nil || isTestFn(p, f) {
			continue
		}
		name := f.Decl.Name.Name
		if !(strings.HasPrefix(name, "read") || strings.HasPrefix(name, "Decode") || strings.HasPrefix(name, "decode")) {
			continue
		}
		nFns++
		c.Analysed(f)
		ast.Inspect(f.Decl.Body, func(n ast.Node) bool {
			as, ok := n.(*ast.AssignStmt)
			if !ok || len(as.Lhs) != len(as.Rhs) {
				return true
			}
			for i, l := range as.Lhs {
				fv := core.FieldOf(f.Pkg, l)
				if fv == nil || !core.MentionsField(f.Pkg, as.Rhs[i], fv) {
					continue
				}
				// x.F = append(x.F, …) and x.F = x.F[:n] while reading a list are the accumulation itself
				if call, isCall := core.Unparen(as.Rhs[i]).(*ast.CallExpr); isCall {
					if id, isId := call.Fun.(*ast.Ident); isId && id.Name == "append" {
						continue
					}
				}
				nBad++
				c.Check(false, rule, fmt.Sprintf("%s rewrites %s from its own value", f.Name(), fv.Name()), as.Pos(),
					fmt.Sprintf("the reader assigns %s from an expression over %s itself after decoding it: the decoded content differs from the octets the serializer wrote (and from the length fields kept from the wire), so a serialized PDU does not decode back to the same content", fv.Name(), fv.Name()))
			}
			return true
		})
	}
	c.Check(nFns >= 15, rule, "reader functions examined", 0, fmt.Sprintf("examined %d reader functions of the IS-IS packet package, floor 15", nFns))
	if nBad == 0 {
		c.Check(true, rule, "no reader rewrites a decoded field from itself", 0, "")
	}
}

// declaredLengthCountsWhatIsStored: a TLV constructor that derives TLVLength from len(input) while it stores
// helper(input) as the value relies on the helper producing exactly one element per input element.  A helper that skips
// elements (de-duplication, filtering) makes the TLV declare more octets than it writes; the reader then swallows the
// start of the next TLV and the PDU bio-rd serialized does not decode back.  Rule: for every TLV literal whose
// TLVLength mentions len(P) of a parameter P and another field of which is h(P) for a helper h of the package, every
// loop of h over its parameter stores/appends unconditionally in each iteration and has no early exit.
func declaredLengthCountsWhatIsStored(c *core.Ctx) {
	const rule = "declared-length-counts-what-is-stored"
	p := c.P
	const ipkt = "protocols/isis/packet"
	n := 0
	for _, f := range p.FuncsIn(ipkt) {
		if f.Decl.Body == nil || isTestFn(p, f) {
			continue
		}
		ast.Inspect(f.Decl.Body, func(nd ast.Node) bool {
			cl, ok := nd.(*ast.CompositeLit)
			if !ok {
				return true
			}
			var lenParams []types.Object
			for _, el := range cl.Elts {
				kv, ok := el.(*ast.KeyValueExpr)
				if !ok {
					continue
				}
				if id, ok := kv.Key.(*ast.Ident); ok && id.Name == "TLVLength" {
					ast.Inspect(kv.Value, func(m ast.Node) bool {
						if call, ok := m.(*ast.CallExpr); ok && len(call.Args) == 1 {
							if fid, ok := call.Fun.(*ast.Ident); ok && fid.Name == "len" {
								if o := core.ObjOf(f.Pkg, call.Args[0]); o != nil {
									lenParams = append(lenParams, o)
								}
							}
						}
						return true
					})
				}
			}
			if len(lenParams) == 0 {
				return true
			}
			for _, el := range cl.Elts {
				kv, ok := el.(*ast.KeyValueExpr)
				if !ok {
					continue
				}
				call, ok := core.Unparen(kv.Value).(*ast.CallExpr)
				if !ok || len(call.Args) != 1 {
					continue
				}
				arg := core.ObjOf(f.Pkg, call.Args[0])
				isLenParam := false
				for _, lp := range lenParams {
					if lp == arg && arg != nil {
						isLenParam = true
					}
				}
				h := p.FnOf(core.Callee(f.Pkg, call))
				if !isLenParam || h == nil || h.Decl.Body == nil {
					continue
				}
				n++
				c.Analysed(f, h)
				hp := core.ParamObj(h, 0)
				ok2, why := true, ""
				nLoops := 0
				ast.Inspect(h.Decl.Body, func(m ast.Node) bool {
					rs, isR := m.(*ast.RangeStmt)
					if !isR || core.ObjOf(h.Pkg, rs.X) != hp {
						return true
					}
					nLoops++
					if len(loopExits(rs.Body)) > 0 {
						ok2, why = false, "the loop can be left early"
					}
					stores := 0
					ast.Inspect(rs.Body, func(x ast.Node) bool {
						as, isAs := x.(*ast.AssignStmt)
						if !isAs || len(as.Rhs) != 1 {
							return true
						}
						isStore := false
						if ac, isC := core.Unparen(as.Rhs[0]).(*ast.CallExpr); isC {
							if fid, isId := ac.Fun.(*ast.Ident); isId && fid.Name == "append" {
								isStore = true
							}
						}
						if _, isIdx := core.Unparen(as.Lhs[0]).(*ast.IndexExpr); isIdx {
							isStore = true
						}
						if !isStore {
							return true
						}
						stores++
						for _, ft := range core.CtlFactsAt(h, as) {
							if ft.Expr != nil && ft.Expr.Pos() >= rs.Body.Pos() && ft.Expr.End() <= rs.Body.End() {
								ok2, why = false, "an element is stored only under `"+core.ExprString(ft.Expr)+"`"
							}
						}
						return true
					})
					if stores == 0 {
						ok2, why = false, "the loop stores nothing"
					}
					return true
				})
				if nLoops == 0 {
					ok2, why = false, "no loop over the input found in the helper"
				}
				c.Check(ok2, rule, fmt.Sprintf("%s: TLVLength from len(%s), value from %s", f.Name(), arg.Name(), h.Decl.Name.Name), cl.Pos(),
					"the TLV's declared length is computed from the number of input elements, but the helper that builds the value does not store one element per input element ("+why+"): the TLV declares more octets than are written, the reader runs into the next TLV and a PDU bio-rd serialized does not decode back")
			}
			return true
		})
	}
	c.Check(n >= 1, rule, "length-from-input / value-from-helper constructors found", 0, "none found (confirmed by hand: NewIPInterfaceAddressesTLV)")
}
