package props

import (
	"fmt"
	"go/ast"
	"go/token"
	"go/types"

	"verif/engine/core"
)

func init() {
	Register(&Prop{
		Meta: core.Meta{
			ID: "C31", Title: "IS-IS point-to-point adjacencies follow the three-way handshake and hold timer", Level: "other",
			Technique:   "guard extraction and value-dependence rules (R-GATE, R-DEP) on the typed AST/go/cfg of the adjacency code: what every state change is control-dependent on, what the hold timer is computed from, which states the timeout check covers, what the local LSP's neighbor list is built from",
			DesignRef:   "DESIGN.md §4 C31",
			Decided:     "(0) truth table of the hello handler: over all valuations of (three-way TLV present, current state, TLV names us) and of every other atom occurring in the path conditions, the state is set Up exactly for present ∧ not Up ∧ names-us and Down exactly for present ∧ Up ∧ ¬names-us; (1) the adjacency state is set to Up only under `the neighbor's three-way TLV names this system and this circuit` (both the system ID and the circuit ID are compared), and hello processing sets it to Down only under the negation for an adjacency that is Up; (2) the holding time armed at creation and at every later hello is computed from the HoldingTimer field of that hello; (3) the periodic checker applies the holding time to every adjacency that is not already Down (so one that never came Up times out too), takes a timed-out adjacency Down, and disposes and removes a Down adjacency after the grace period on the checker's exit; (4) the IS reachability of the local LSP is built from exactly the neighbors the L2 neighbor managers report as Up, for all interfaces, and both state changes regenerate the LSP.",
			NotDecided:  "timing (that the checker ticks, how long 'eventually' is); the content of the reachability entries; LAN adjacencies.",
			TrustedBase: stdTrusted,
		},
		Run: runC31,
		Controls: []Control{
			{Name: "deadline-only-moves-forward", File: "protocols/isis/server/neighbor.go", Old: "\tn.timeout = to\n}", New: "\tif !to.After(n.timeout) {\n\t\treturn\n\t}\n\tn.timeout = to\n}", Expect: "deadline-follows-the-last-hello"},
			{Name: "down-neighbor-replaced-in-the-map", File: "protocols/isis/server/neighbor_manager.go", Old: "\tif _, found := nm.neighbors[src]; !found {\n\t\tn := nm.neighborFromP2PHello(hello, src)\n", New: "\tif old, found := nm.neighbors[src]; !found || old.getState() == packet.P2PAdjStateDown {\n\t\tn := nm.neighborFromP2PHello(hello, src)\n", Expect: "neighbor-entry-created-only-when-absent"},
			{Name: "refactor-lookup-before-the-test", Silent: true, File: "protocols/isis/server/neighbor_manager.go", Old: "\tif _, found := nm.neighbors[src]; !found {\n\t\tn := nm.neighborFromP2PHello(hello, src)\n", New: "\t_, found := nm.neighbors[src]\n\tif !found {\n\t\tn := nm.neighborFromP2PHello(hello, src)\n"},
			{Name: "checker-ticker-handed-in-from-the-manager", File: "protocols/isis/server/neighbor.go", Old: "\tn.adjCheckTicker = clock.Ticker(time.Second)\n\tdefer n.adjCheckTicker.Stop()\n", New: "\tdefer n.adjCheckTicker.Stop()\n\tif n.adjCheckTicker == nil {\n\t\tn.adjCheckTicker = clock.Ticker(time.Second)\n\t}\n", Expect: "checker-stops-its-own-ticker"},
			{Name: "down-only-tears-down-up-adjacencies", File: "protocols/isis/server/neighbor.go", Old: "func (n *neighbor) down() {\n", New: "func (n *neighbor) down() {\n\tif n.getState() != packet.P2PAdjStateUp {\n\t\treturn\n\t}\n", Expect: "timeout-covers-every-live-state"},
			{Name: "refactor-down-skips-when-already-down", Silent: true, File: "protocols/isis/server/neighbor.go", Old: "func (n *neighbor) down() {\n", New: "func (n *neighbor) down() {\n\tif n.getState() == packet.P2PAdjStateDown {\n\t\treturn\n\t}\n"},
			{Name: "timeout-retaken-every-tick", File: "protocols/isis/server/neighbor.go", Old: "\t\t\tif state != packet.P2PAdjStateDown {\n\t\t\t\tif n.timedOut() {\n\t\t\t\t\tn.down()\n\t\t\t\t\tstate, change = n.getStateAndTime()\n\t\t\t\t}\n\t\t\t}\n", New: "\t\t\tif n.timedOut() {\n\t\t\t\tn.down()\n\t\t\t\tstate, change = n.getStateAndTime()\n\t\t\t}\n", Expect: "timeout-covers-every-live-state"},
			{Name: "short-three-way-tlv-ignored", File: "protocols/isis/server/neighbor.go", Old: "\tp2pAdjState := getP2PAdjTLV(hello.TLVs)\n\tif p2pAdjState == nil {\n", New: "\tp2pAdjState := getP2PAdjTLV(hello.TLVs)\n\tif p2pAdjState == nil || p2pAdjState.Length() < packet.P2PAdjacencyStateTLVLenWithNeighbor {\n", Expect: "hello-drives-adjacency-state"},
			{Name: "refactor-three-way-result-in-local", Silent: true, File: "protocols/isis/server/neighbor.go", Old: "\tif n.getState() != packet.P2PAdjStateUp && n.p2pAdjTLVContainsSelf(p2pAdjState) {", New: "\tnamesUs := n.p2pAdjTLVContainsSelf(p2pAdjState)\n\tif n.getState() != packet.P2PAdjStateUp && namesUs {"},
			{Name: "up-without-three-way-check", File: "protocols/isis/server/neighbor.go", Old: "\tif n.getState() != packet.P2PAdjStateUp && n.p2pAdjTLVContainsSelf(p2pAdjState) {", New: "\tif n.getState() != packet.P2PAdjStateUp {", Expect: "up-requires-three-way"},
			{Name: "circuit-id-not-compared", File: "protocols/isis/server/neighbor.go", Old: "\treturn t.NeighborSystemID == n.nm.netIfa.srv.nets[0].SystemID && t.NeighborExtendedLocalCircuitID == uint32(n.nm.netIfa.devStatus.GetIndex())", New: "\treturn t.NeighborSystemID == n.nm.netIfa.srv.nets[0].SystemID", Expect: "up-requires-three-way"},
			{Name: "hold-timer-from-local-config", File: "protocols/isis/server/neighbor.go", Old: "\tn.updateTimeout(clock.Now().Add(time.Second * time.Duration(hello.HoldingTimer)))", New: "\tn.updateTimeout(clock.Now().Add(time.Second * time.Duration(n.nm.netIfa.cfg.holdingTimer())))", Expect: "hold-timer-from-hello"},
			{Name: "timeout-only-for-up-adjacencies", File: "protocols/isis/server/neighbor.go", Old: "\t\t\tif state != packet.P2PAdjStateDown {\n\t\t\t\tif n.timedOut() {", New: "\t\t\tif state == packet.P2PAdjStateUp {\n\t\t\t\tif n.timedOut() {", Expect: "timeout-covers-every-live-state"},
			{Name: "lsp-from-single-neighbor-helper", File: "protocols/isis/server/lsp.go", Old: "\t\tfor _, n := range ifa.neighborManagerL2.getNeighborsUp() {\n\t\t\tneighbor := n.extendedISReachabilityNeighbor()", New: "\t\tfor _, n := range ifa.neighborManagerL2.getNeighbors() {\n\t\t\tneighbor := n.extendedISReachabilityNeighbor()", Expect: "lsp-lists-up-adjacencies"},
		},
	})
}

func runC31(c *core.Ctx) {
	neighborEntryCreatedOnlyWhenAbsent(c, "neighbor-entry-created-only-when-absent")
	helloDrivesState(c)
	holdDeadlineAndTicker(c)
	p := c.P
	proc := c.MustFunc(isisSrv + ".(*neighbor).processP2PHello")
	contains := c.MustFunc(isisSrv + ".(*neighbor).p2pAdjTLVContainsSelf")
	setState := c.MustFunc(isisSrv + ".(*neighbor).setState")
	checker := c.MustFunc(isisSrv + ".(*neighbor).adjChecker")
	mk := c.MustFunc(isisSrv + ".(*neighborManager).neighborFromP2PHello")
	if proc == nil || contains == nil || setState == nil || checker == nil || mk == nil {
		return
	}
	c.Analysed(proc, contains, setState, checker, mk)
	upC := p.Object("protocols/isis/packet", "P2PAdjStateUp")
	downC := p.Object("protocols/isis/packet", "P2PAdjStateDown")
	isConst := func(f *core.Fn, e ast.Expr, o types.Object) bool {
		co := core.ConstObjOf(f.Pkg, e)
		return o != nil && co != nil && types.Object(co) == o
	}

	// (1) every setState(Up) anywhere in the package is under containsSelf == true
	nUp := 0
	for _, f := range p.FuncsIn(isisSrv) {
		if f.Decl.Body == nil {
			continue
		}
		for _, call := range core.Calls(f.Pkg, f.Decl.Body, func(o *types.Func) bool { return o == setState.Obj }) {
			if len(call.Args) != 1 || !isConst(f, call.Args[0], upC) {
				continue
			}
			nUp++
			ok := false
			for _, ft := range core.CtlFactsAt(f, call) {
				if cl := core.CallOf(f, ft.Expr); cl != nil && ft.Truth && core.Callee(f.Pkg, cl) == contains.Obj {
					ok = true
				}
			}
			c.Check(ok, "up-requires-three-way", fmt.Sprintf("%s sets the adjacency Up only after the three-way check", f.Name()), call.Pos(),
				"the adjacency is declared Up without the neighbor's hello naming this system and circuit in its three-way adjacency TLV: a one-way link (we hear the neighbor, it does not hear us) forms an adjacency and is advertised in the LSP")
		}
	}
	c.Check(nUp >= 1, "up-requires-three-way", "transitions to Up found", proc.Decl.Pos(), "no setState(P2PAdjStateUp) found")
	// direct stores to neighbor.state outside setState and the constructor
	stateF := p.Field(isisSrv, "neighbor", "state")
	for _, f := range p.FuncsIn(isisSrv) {
		if f.Decl.Body == nil || f == setState {
			continue
		}
		ast.Inspect(f.Decl.Body, func(n ast.Node) bool {
			if as, ok := n.(*ast.AssignStmt); ok {
				for _, l := range as.Lhs {
					if core.FieldOf(f.Pkg, l) == stateF && stateF != nil {
						c.Fail("up-requires-three-way", f.Name()+" writes neighbor.state directly", as.Pos(), "the adjacency state is changed outside setState: the three-way rule is not applied to this change")
					}
				}
			}
			return true
		})
	}
	// the check compares both identifiers of the TLV
	{
		sysF := p.Field("protocols/isis/packet", "P2PAdjacencyStateTLV", "NeighborSystemID")
		cirF := p.Field("protocols/isis/packet", "P2PAdjacencyStateTLV", "NeighborExtendedLocalCircuitID")
		cmp := map[*types.Var]bool{}
		conj := true
		ast.Inspect(contains.Decl.Body, func(n ast.Node) bool {
			be, ok := n.(*ast.BinaryExpr)
			if !ok {
				return true
			}
			if be.Op == token.LOR {
				conj = false
			}
			if be.Op == token.EQL {
				for _, e := range []ast.Expr{be.X, be.Y} {
					if fv := core.FieldOf(contains.Pkg, e); fv != nil {
						cmp[fv] = true
					}
				}
			}
			return true
		})
		c.Check(cmp[sysF] && cmp[cirF] && conj && sysF != nil && cirF != nil, "up-requires-three-way", contains.Name()+" compares the system ID and the circuit ID", contains.Decl.Pos(),
			"the three-way check does not require both the neighbor-reported system ID and circuit ID to be ours: a hello that names another circuit (or another system) brings the adjacency Up")
	}
	// hello processing: Down only for an Up adjacency whose TLV no longer names us
	for _, call := range core.Calls(proc.Pkg, proc.Decl.Body, func(o *types.Func) bool { return o == setState.Obj }) {
		if len(call.Args) != 1 || !isConst(proc, call.Args[0], downC) {
			continue
		}
		ok := false
		for _, ft := range core.CtlFactsAt(proc, call) {
			if cl := core.CallOf(proc, ft.Expr); cl != nil && !ft.Truth && core.Callee(proc.Pkg, cl) == contains.Obj {
				ok = true
			}
		}
		c.Check(ok, "up-requires-three-way", proc.Name()+" takes the adjacency Down only when the hello no longer names us", call.Pos(), "hello processing takes an adjacency Down without the three-way TLV having stopped naming this system")
	}

	// (2) hold timer from the hello
	holdF := p.Field("protocols/isis/packet", "P2PHello", "HoldingTimer")
	upd := p.Func(isisSrv + ".(*neighbor).updateTimeout")
	nArm := 0
	if upd != nil {
		for _, call := range core.Calls(proc.Pkg, proc.Decl.Body, func(o *types.Func) bool { return o == upd.Obj }) {
			nArm++
			c.Check(len(call.Args) == 1 && core.MentionsField(proc.Pkg, call.Args[0], holdF) && holdF != nil, "hold-timer-from-hello", proc.Name()+" re-arms the holding time from the hello", call.Pos(),
				"the holding time of an existing adjacency is refreshed with a value that does not come from the neighbor's hello: a neighbor announcing a shorter time than ours is kept too long, one announcing a longer time is dropped while it is still sending hellos")
			// unconditional: first statement level
			cond := false
			for _, ft := range core.CtlFactsAt(proc, call) {
				if ft.Enclosing {
					cond = true
				}
			}
			c.Check(!cond, "hold-timer-from-hello", proc.Name()+" re-arms the holding time on every hello", call.Pos(), "the holding time is refreshed only under a condition: hellos that do not meet it let a live adjacency time out")
		}
	}
	c.Check(nArm >= 1, "hold-timer-from-hello", "re-arming of the holding time found", proc.Decl.Pos(), "processP2PHello no longer calls updateTimeout")
	{
		ok := false
		ast.Inspect(mk.Decl.Body, func(n ast.Node) bool {
			if kv, isKV := n.(*ast.KeyValueExpr); isKV && core.ExprString(kv.Key) == "timeout" && core.MentionsField(mk.Pkg, kv.Value, holdF) {
				ok = true
			}
			return true
		})
		c.Check(ok, "hold-timer-from-hello", mk.Name()+" arms the holding time from the first hello", mk.Decl.Pos(), "a new neighbor's holding time is not taken from its hello")
	}

	// (3) the checker
	timedOut := p.Func(isisSrv + ".(*neighbor).timedOut")
	down := p.Func(isisSrv + ".(*neighbor).down")
	dispose := p.Func(isisSrv + ".(*neighbor).dispose")
	if timedOut != nil && down != nil && dispose != nil {
		for _, call := range core.Calls(checker.Pkg, checker.Decl.Body, func(o *types.Func) bool { return o == timedOut.Obj }) {
			// facts on the state variable: only `state != Down` (or no restriction) is allowed
			restricted := ""
			for _, ft := range core.CtlFactsAt(checker, call) {
				be, isB := core.Unparen(ft.Expr).(*ast.BinaryExpr)
				if !isB || !ft.Enclosing {
					continue
				}
				isDownCmp := isConst(checker, be.Y, downC) || isConst(checker, be.X, downC)
				if isDownCmp && ((be.Op == token.NEQ && ft.Truth) || (be.Op == token.EQL && !ft.Truth)) {
					continue
				}
				restricted = core.ExprString(ft.Expr)
			}
			c.Check(restricted == "", "timeout-covers-every-live-state", checker.Name()+" applies the holding time to every adjacency that is not Down", call.Pos(),
				"the holding time is only checked under `"+restricted+"`: a neighbor whose adjacency never reached that state (it sent a hello and went silent) is never timed out and stays in the neighbor table forever")
			// a time-out leads to down()
			okDown := false
			for _, dc := range core.Calls(checker.Pkg, checker.Decl.Body, func(o *types.Func) bool { return o == down.Obj }) {
				for _, ft := range core.CtlFactsAt(checker, dc) {
					if cl := core.CallOf(checker, ft.Expr); cl != nil && ft.Truth && core.Callee(checker.Pkg, cl) == timedOut.Obj {
						okDown = true
					}
				}
			}
			c.Check(okDown, "timeout-covers-every-live-state", checker.Name()+" takes a timed-out adjacency Down", call.Pos(), "a timed-out adjacency is not taken Down")
		}
		// the removal delay counts from the moment the adjacency went Down: the Down state is entered once, i.e. down()
		// (which stamps the time of the state change) is only called for an adjacency that is not Down yet
		for _, dc := range core.Calls(checker.Pkg, checker.Decl.Body, func(o *types.Func) bool { return o == down.Obj }) {
			notDown := false
			for _, ft := range core.CtlFactsAt(checker, dc) {
				be, isB := core.Unparen(ft.Expr).(*ast.BinaryExpr)
				if !isB {
					continue
				}
				if (isConst(checker, be.Y, downC) || isConst(checker, be.X, downC)) && ((be.Op == token.NEQ && ft.Truth) || (be.Op == token.EQL && !ft.Truth)) {
					notDown = true
				}
			}
			c.Check(notDown, "timeout-covers-every-live-state", checker.Name()+" enters Down once", dc.Pos(), "down() is called on every tick on which the holding time is expired, also for an adjacency that is already Down: each call stamps a new state-change time, so the removal delay never elapses and a silent neighbor stays in the table forever")
		}
		// down() itself: whatever the current state (Init as well as Up), the adjacency ends in Down — every exit passes
		// setState(Down) unless the state is already known to be Down
		{
			c.Analysed(down)
			sets := func(nd ast.Node) bool {
				return core.NodeHas(nd, func(x ast.Node) bool {
					cl, ok := x.(*ast.CallExpr)
					return ok && core.Callee(down.Pkg, cl) == setState.Obj && len(cl.Args) == 1 && isConst(down, cl.Args[0], downC)
				})
			}
			rets, implicit := core.ExitsWithout(p.CFG(down), sets)
			bad := 0
			for _, r := range rets {
				already := false
				for _, ft := range core.FactsAt(down, r) {
					be, isB := core.Unparen(ft.Expr).(*ast.BinaryExpr)
					if isB && (isConst(down, be.Y, downC) || isConst(down, be.X, downC)) && ((be.Op == token.EQL && ft.Truth) || (be.Op == token.NEQ && !ft.Truth)) {
						already = true
					}
				}
				if !already {
					bad++
					c.Check(false, "timeout-covers-every-live-state", fmt.Sprintf("%s return #%d leaves the adjacency Down", down.Name(), retIndex(down, r)), r.Pos(),
						"neighbor.down() returns without setting the Down state although the adjacency is not known to be Down already: an adjacency that is still initialising (never came Up) is not taken Down by the holding-time expiry and is therefore never removed")
				}
			}
			if bad == 0 {
				c.Check(!implicit || len(rets) == 0 && setsSomewhere(down, sets), "timeout-covers-every-live-state", down.Name()+" leaves the adjacency Down from every state", down.Decl.Pos(),
					"neighbor.down() can end without setting the Down state")
			}
		}
		okDisp := false
		for _, dc := range core.Calls(checker.Pkg, checker.Decl.Body, func(o *types.Func) bool { return o == dispose.Obj }) {
			for _, ft := range core.CtlFactsAt(checker, dc) {
				if be, isB := core.Unparen(ft.Expr).(*ast.BinaryExpr); isB && ft.Truth && be.Op == token.EQL && (isConst(checker, be.Y, downC) || isConst(checker, be.X, downC)) {
					okDisp = true
				}
			}
		}
		c.Check(okDisp, "timeout-covers-every-live-state", checker.Name()+" disposes an adjacency that stayed Down", checker.Decl.Pos(), "an adjacency that is Down is never disposed")
	}
	if w := c.MustFunc(isisSrv + ".(*neighborManager).adjChecker"); w != nil {
		drop := p.Func(isisSrv + ".(*neighborManager).dropNeighbour")
		ok := false
		ast.Inspect(w.Decl.Body, func(n ast.Node) bool {
			if d, isD := n.(*ast.DeferStmt); isD && drop != nil && core.Callee(w.Pkg, d.Call) == drop.Obj {
				ok = true
			}
			return true
		})
		c.Check(ok, "timeout-covers-every-live-state", w.Name()+" removes the neighbor from the table when its checker ends", w.Decl.Pos(), "a disposed neighbor stays in the neighbor table")
	}

	// (4) the local LSP
	// the function that fills the extended IS reachability TLV(s): found by what it does (calls AddNeighbor), not by name
	var lspNeighbors *core.Fn
	for _, g := range p.FuncsIn(isisSrv) {
		if g.Decl.Body == nil || isTestFn(p, g) {
			continue
		}
		if len(core.Calls(g.Pkg, g.Decl.Body, core.KeyIs("protocols/isis/packet.(*ExtendedISReachabilityTLV).AddNeighbor"))) > 0 {
			lspNeighbors = g
		}
	}
	if lspNeighbors == nil {
		c.Undecided("lsp-lists-up-adjacencies", "the function that adds neighbors to the extended IS reachability TLV", token.NoPos, "no caller of ExtendedISReachabilityTLV.AddNeighbor in the IS-IS server")
	}
	if f := lspNeighbors; f != nil {
		upFn := p.Func(isisSrv + ".(*neighborManager).getNeighborsUp")
		allIf := p.Func(isisSrv + ".(*netIfaManager).getAllInterfaces")
		l2 := p.Field(isisSrv, "netIfa", "neighborManagerL2")
		okSrc, okAll, okAdd := false, false, false
		ast.Inspect(f.Decl.Body, func(n ast.Node) bool {
			rs, ok := n.(*ast.RangeStmt)
			if !ok {
				return true
			}
			if call, isC := core.Unparen(rs.X).(*ast.CallExpr); isC {
				cal := core.Callee(f.Pkg, call)
				if allIf != nil && cal == allIf.Obj {
					okAll = true
				}
				if upFn != nil && cal == upFn.Obj {
					if se, isSel := call.Fun.(*ast.SelectorExpr); isSel && core.FieldOf(f.Pkg, se.X) == l2 && l2 != nil {
						okSrc = true
						// every ranged neighbor is added, unconditionally
						for _, st := range rs.Body.List {
							if es, isES := st.(*ast.ExprStmt); isES {
								if ac, isAC := es.X.(*ast.CallExpr); isAC && core.ExprString(ac.Fun) != "" {
									if cal2 := core.Callee(f.Pkg, ac); cal2 != nil && cal2.Name() == "AddNeighbor" {
										okAdd = true
									}
								}
							}
						}
					}
				}
			}
			return true
		})
		c.Check(okSrc && okAll && okAdd, "lsp-lists-up-adjacencies", f.Name()+" lists the Up L2 neighbors of every interface", f.Decl.Pos(),
			"the IS reachability TLV of the local LSP is not built by adding every neighbor that the L2 neighbor manager of every interface reports as Up: adjacencies that are not Up are advertised, or Up ones are missing")
	}
	if upFn := c.MustFunc(isisSrv + ".(*neighborManager).getNeighborsUp"); upFn != nil {
		ok := false
		ast.Inspect(upFn.Decl.Body, func(n ast.Node) bool {
			ifs, isIf := n.(*ast.IfStmt)
			if !isIf {
				return true
			}
			if be, isB := core.Unparen(ifs.Cond).(*ast.BinaryExpr); isB && be.Op == token.NEQ && (isConst(upFn, be.Y, upC) || isConst(upFn, be.X, upC)) && core.Terminates(upFn.Pkg, ifs.Body.List) {
				ok = true
			}
			return true
		})
		c.Check(ok, "lsp-lists-up-adjacencies", upFn.Name()+" returns the neighbors in state Up only", upFn.Decl.Pos(), "the list of Up neighbors is not filtered by `state == Up`")
	}
	// both transitions regenerate the LSP
	updLSP := p.Func(isisSrv + ".(*Server).updateL2LSP")
	if updLSP != nil {
		for _, call := range core.Calls(proc.Pkg, proc.Decl.Body, func(o *types.Func) bool { return o == setState.Obj }) {
			// a call to updateL2LSP follows in the same block
			path := core.PathTo(proc.Decl.Body, call)
			ok := false
			for i := len(path) - 1; i >= 0; i-- {
				if bl, isBl := path[i].(*ast.BlockStmt); isBl {
					for _, st := range bl.List {
						if st.Pos() > call.End() && len(core.Calls(proc.Pkg, st, func(o *types.Func) bool { return o == updLSP.Obj })) > 0 {
							ok = true
						}
					}
					break
				}
			}
			c.Check(ok, "lsp-lists-up-adjacencies", fmt.Sprintf("%s regenerates the LSP after the state change to %s", proc.Name(), core.ExprString(call.Args[0])), call.Pos(), "an adjacency state change is not followed by a regeneration of the local LSP: the LSP keeps advertising the old set of adjacencies")
		}
	}
}

func setsSomewhere(f *core.Fn, pred func(ast.Node) bool) bool {
	found := false
	ast.Inspect(f.Decl.Body, func(n ast.Node) bool {
		if st, ok := n.(ast.Stmt); ok && pred(st) {
			found = true
		}
		return true
	})
	return found
}

// holdDeadlineAndTicker:
//
//	(a) every hello sets the holding deadline to what THAT hello announces: neighbor.updateTimeout stores its argument
//	    on every path (a "never move the deadline backwards" guard keeps an adjacency Up for the longest holding time
//	    ever announced after the neighbor went silent);
//	(b) the ticker that paces a neighbor's timeout checks is stopped by the goroutine that created it: a deferred
//	    Stop() on a ticker field needs an assignment of that field from a constructor call earlier in the same function —
//	    a ticker handed in from outside (shared per interface) is stopped for everybody by the first neighbor disposed,
//	    after which no silent neighbor on that interface is ever taken Down.
func holdDeadlineAndTicker(c *core.Ctx) {
	p := c.P
	const ruleA, ruleB = "deadline-follows-the-last-hello", "checker-stops-its-own-ticker"
	if f := c.MustFunc(isisSrv + ".(*neighbor).updateTimeout"); f != nil {
		c.Analysed(f)
		to := p.Field(isisSrv, "neighbor", "timeout")
		par := core.ParamObj(f, 0)
		sets := func(n ast.Node) bool {
			as, ok := n.(*ast.AssignStmt)
			if !ok || len(as.Lhs) != 1 || len(as.Rhs) != 1 {
				return false
			}
			return core.FieldOf(f.Pkg, as.Lhs[0]) == to && to != nil && core.ObjOf(f.Pkg, as.Rhs[0]) == par && par != nil
		}
		rets, implicit := core.ExitsWithout(p.CFG(f), sets)
		pos := f.Decl.Pos()
		if len(rets) > 0 {
			pos = rets[0].Pos()
		}
		// falling off the end after the assignment is fine: implicit counts only if the assignment is missing on that path
		c.Check(len(rets) == 0 && !implicit, ruleA, f.Name()+" stores the new deadline on every path", pos,
			"updateTimeout can return without storing the deadline computed from the hello just received: a neighbor that lowers its holding time and then goes silent stays Up until the older, longer deadline")
	}
	if f := c.MustFunc(isisSrv + ".(*neighbor).adjChecker"); f != nil {
		c.Analysed(f)
		n := 0
		ast.Inspect(f.Decl.Body, func(nd ast.Node) bool {
			d, ok := nd.(*ast.DeferStmt)
			if !ok {
				return true
			}
			se, ok := d.Call.Fun.(*ast.SelectorExpr)
			if !ok || se.Sel.Name != "Stop" {
				return true
			}
			fv := core.FieldOf(f.Pkg, se.X)
			if fv == nil {
				return true
			}
			n++
			own := false
			ast.Inspect(f.Decl.Body, func(m ast.Node) bool {
				as, isAs := m.(*ast.AssignStmt)
				if !isAs || as.Pos() > d.Pos() || len(as.Lhs) != len(as.Rhs) {
					return true
				}
				for i, l := range as.Lhs {
					if core.FieldOf(f.Pkg, l) == fv {
						if _, isCall := core.Unparen(as.Rhs[i]).(*ast.CallExpr); isCall {
							own = true
						}
					}
				}
				return true
			})
			c.Check(own, ruleB, fmt.Sprintf("%s stops %s, which it created", f.Name(), fv.Name()), d.Pos(),
				"the checker goroutine stops a ticker it did not create in this run (the field is not assigned from a constructor call before the deferred Stop): a ticker shared between neighbors is stopped for all of them when the first one is disposed, and the hold timers of the others are never evaluated again")
			return true
		})
		c.Check(n >= 1, ruleB, "deferred ticker stop found", f.Decl.Pos(), "adjChecker has no deferred Stop() of a ticker field")
	}
}
