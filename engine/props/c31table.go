package props

import (
	"fmt"
	"go/ast"
	"go/constant"
	"go/token"
	"sort"
	"strings"

	"verif/engine/core"
)

// helloDrivesState: RFC 5303 three-way handshake as a truth table on processP2PHello.  With
//
//	A  = the hello carries no three-way adjacency TLV
//	st = the adjacency's current state (Up, Init, Down)
//	S  = the TLV names us (system ID and circuit ID): p2pAdjTLVContainsSelf
//
// the state is set to Up exactly when ¬A ∧ st ≠ Up ∧ S and to Down exactly when ¬A ∧ st = Up ∧ ¬S.  The exact path
// conditions of the two setState statements are extracted from the structured code and evaluated on every valuation;
// any other atom that occurs in them (a length test, a flag) is enumerated both ways: the equivalence must hold whatever
// its value, otherwise some hello that no longer lists us leaves the adjacency Up (or takes it Up without the check).
func helloDrivesState(c *core.Ctx) {
	const rule = "hello-drives-adjacency-state"
	p := c.P
	c.Floor(rule, 2)
	f := c.MustFunc(isisSrv + ".(*neighbor).processP2PHello")
	if f == nil {
		return
	}
	c.Analysed(f)
	pc, err := core.ExtractPathConds(f)
	if err != nil {
		c.Undecided(rule, f.Name(), f.Decl.Pos(), "path conditions cannot be extracted: "+err.Error())
		return
	}
	up, down := p.Object("protocols/isis/packet", "P2PAdjStateUp"), p.Object("protocols/isis/packet", "P2PAdjStateDown")
	getTLV := p.Func(isisSrv + ".getP2PAdjTLV")
	self := p.Func(isisSrv + ".(*neighbor).p2pAdjTLVContainsSelf")
	getState := p.Func(isisSrv + ".(*neighbor).getState")
	if up == nil || down == nil || self == nil || getState == nil || getTLV == nil {
		c.Undecided(rule, f.Name(), f.Decl.Pos(), "anchors not found")
		return
	}
	upV, _ := constant.Int64Val(up.(interface{ Val() constant.Value }).Val())
	// the local that holds the TLV
	isTLV := func(e ast.Expr) bool {
		o := core.ObjOf(f.Pkg, e)
		if o == nil {
			return false
		}
		for _, d := range core.DefsOf(f, o) {
			if call, ok := core.Unparen(d).(*ast.CallExpr); ok && core.Callee(f.Pkg, call) == getTLV.Obj {
				return true
			}
		}
		return false
	}
	type val struct {
		A, S  bool
		st    int64
		extra map[string]bool
	}
	var extraAtoms []string
	seenExtra := map[string]bool{}
	var atom func(e ast.Expr, v *val, collect bool) (bool, bool)
	atom = func(e ast.Expr, v *val, collect bool) (bool, bool) {
		e = core.Unparen(e)
		switch x := e.(type) {
		case *ast.UnaryExpr:
			if x.Op == token.NOT {
				r, ok := atom(x.X, v, collect)
				return !r, ok
			}
		case *ast.BinaryExpr:
			switch x.Op {
			case token.LAND:
				a, ok1 := atom(x.X, v, collect)
				b, ok2 := atom(x.Y, v, collect)
				return a && b, ok1 && ok2
			case token.LOR:
				a, ok1 := atom(x.X, v, collect)
				b, ok2 := atom(x.Y, v, collect)
				return a || b, ok1 && ok2
			case token.EQL, token.NEQ:
				l, r := core.Unparen(x.X), core.Unparen(x.Y)
				if id, ok := l.(*ast.Ident); ok && id.Name == "nil" {
					l, r = r, l
				}
				if id, ok := r.(*ast.Ident); ok && id.Name == "nil" && isTLV(l) {
					return v.A == (x.Op == token.EQL), true
				}
				// state comparison (the state may have been read into a local first)
				if call := core.CallOf(f, l); call != nil && core.Callee(f.Pkg, call) == getState.Obj {
					if cv := core.ConstOf(f.Pkg, r); cv != nil {
						k, _ := constant.Int64Val(cv)
						return (v.st == k) == (x.Op == token.EQL), true
					}
				}
				if call := core.CallOf(f, r); call != nil && core.Callee(f.Pkg, call) == getState.Obj {
					if cv := core.ConstOf(f.Pkg, l); cv != nil {
						k, _ := constant.Int64Val(cv)
						return (v.st == k) == (x.Op == token.EQL), true
					}
				}
			}
		case *ast.CallExpr:
			if core.Callee(f.Pkg, x) == self.Obj {
				return v.S, true
			}
		case *ast.Ident:
			// a local holding the result of the three-way check
			if call := core.CallOf(f, x); call != nil && core.Callee(f.Pkg, call) == self.Obj {
				return v.S, true
			}
		}
		k := core.ExprString(e)
		if collect && !seenExtra[k] {
			seenExtra[k] = true
			extraAtoms = append(extraAtoms, k)
		}
		return v.extra[k], true
	}
	var evalF func(fm *core.Formula, v *val, collect bool) bool
	evalF = func(fm *core.Formula, v *val, collect bool) bool {
		switch fm.Op {
		case "true":
			return true
		case "false":
			return false
		case "not":
			return !evalF(fm.Sub[0], v, collect)
		case "and":
			a := evalF(fm.Sub[0], v, collect)
			b := evalF(fm.Sub[1], v, collect)
			return a && b
		case "or":
			a := evalF(fm.Sub[0], v, collect)
			b := evalF(fm.Sub[1], v, collect)
			return a || b
		case "atom":
			r, _ := atom(fm.Atom, v, collect)
			return r
		}
		k := "formula:" + fm.Op
		if collect && !seenExtra[k] {
			seenExtra[k] = true
			extraAtoms = append(extraAtoms, k)
		}
		return v.extra[k]
	}
	// the two statements
	var setUp, setDown []ast.Stmt
	for st := range pc.Cond {
		es, ok := st.(*ast.ExprStmt)
		if !ok {
			continue
		}
		call, ok := es.X.(*ast.CallExpr)
		if !ok || len(call.Args) != 1 {
			continue
		}
		if sel, ok := call.Fun.(*ast.SelectorExpr); !ok || sel.Sel.Name != "setState" {
			continue
		}
		switch {
		case isConstObj(f, call.Args[0], up):
			setUp = append(setUp, st)
		case isConstObj(f, call.Args[0], down):
			setDown = append(setDown, st)
		}
	}
	sort.Slice(setUp, func(i, j int) bool { return setUp[i].Pos() < setUp[j].Pos() })
	sort.Slice(setDown, func(i, j int) bool { return setDown[i].Pos() < setDown[j].Pos() })
	check := func(what string, stmts []ast.Stmt, spec func(v *val) bool, wrong string) {
		pos := f.Decl.Pos()
		if len(stmts) > 0 {
			pos = stmts[0].Pos()
		}
		if len(stmts) == 0 {
			c.Fail(rule, f.Name()+" "+what, pos, "no such state change in the hello handler")
			return
		}
		holds := func(v *val, collect bool) bool {
			for _, st := range stmts {
				if evalF(pc.Cond[st], v, collect) {
					return true
				}
			}
			return false
		}
		// collect the extra atoms first
		holds(&val{extra: map[string]bool{}}, true)
		rows, bad, first := 0, 0, ""
		n := len(extraAtoms)
		if n > 6 {
			c.Undecided(rule, f.Name()+" "+what, pos, fmt.Sprintf("%d unknown atoms in the path condition", n))
			return
		}
		for _, A := range []bool{false, true} {
			for _, S := range []bool{false, true} {
				for _, st := range []int64{0, 1, 2} {
					for m := 0; m < 1<<n; m++ {
						ex := map[string]bool{}
						for i, k := range extraAtoms {
							ex[k] = m&(1<<i) != 0
						}
						v := &val{A: A, S: S, st: st, extra: ex}
						rows++
						if holds(v, false) != spec(v) {
							bad++
							if first == "" {
								var es []string
								for _, k := range extraAtoms {
									es = append(es, fmt.Sprintf("%s=%v", k, ex[k]))
								}
								first = fmt.Sprintf("TLV absent=%v, state=%d (Up=%d), names us=%v %s: code %v, RFC 5303 %v", A, st, upV, S, strings.Join(es, " "), holds(v, false), spec(v))
							}
						}
					}
				}
			}
		}
		c.Check(bad == 0, rule, fmt.Sprintf("%s %s (%d valuations)", f.Name(), what, rows), pos, fmt.Sprintf("%d of %d valuations disagree; first: %s — %s", bad, rows, first, wrong))
	}
	check("sets the adjacency Up exactly when a hello that names us arrives and it is not Up", setUp,
		func(v *val) bool { return !v.A && v.st != upV && v.S },
		"the adjacency comes Up without the neighbor having listed us, or fails to come Up when it does")
	check("takes the adjacency Down exactly when a hello arrives that no longer names us", setDown,
		func(v *val) bool { return !v.A && v.st == upV && !v.S },
		"a hello that no longer lists us (e.g. the short TLV a restarted neighbor sends) leaves the adjacency Up, or a hello that does list us takes it Down")
}
