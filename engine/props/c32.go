package props

import (
	"fmt"
	"go/ast"
	"go/token"
	"go/types"
	"sort"
	"strings"

	"verif/engine/core"
)

func init() {
	Register(&Prop{
		Meta: core.Meta{
			ID: "C32", Title: "The IS-IS LSDB follows the ISO 10589 update process", Level: "other",
			Technique:   "guard extraction (R-GATE) and decision tables on the typed AST/go/cfg of the LSDB: what every database store, every flag operation, the aging step and the own sequence counter are control-dependent on",
			DesignRef:   "DESIGN.md §4 C32",
			Decided:     "(0) a newer copy of an LSP is installed as a fresh LSDB entry (built by the entry constructor): the send/acknowledge flags of the copy it replaces — or of a CSNP placeholder — on other circuits cannot survive into it; (1) a received LSP replaces the stored one only when there is none or its sequence number is higher; equal and lower numbers never store; (2) the flag operations of the four cases of an LSP/SNP entry against the database (newer received, same, older received / entry newer, same, older, unknown) are the ISO 10589 §7.3.15–17 ones (table in the checker), for CSNP and PSNP entries alike, and the 'not described by the CSNP' rule applies only inside the CSNP's range; (3) aging removes an entry whose remaining lifetime is at most 1 and only decrements larger ones (no wrap below zero), and asks for a refresh of the own LSP below the refresh threshold; (4) the own sequence number increases with every originated LSP, skips 0, and is raised to a received copy's number before the next origination.",
			NotDecided:  "timing of the periodic routines, checksum handling, purging (zero-lifetime LSP propagation), pseudonode LSPs; that flooding eventually reaches every neighbor is a liveness property.",
			TrustedBase: stdTrusted,
		},
		Run: runC32,
		Controls: []Control{
			{Name: "psnp-leaves-placeholders-out", File: "protocols/isis/server/lsdb.go", Old: "\t\tif !lsp.getSSN(ifa) {\n\t\t\tcontinue\n\t\t}\n", New: "\t\tif !lsp.getSSN(ifa) || lsp.lspdu.SequenceNumber == 0 {\n\t\t\tcontinue\n\t\t}\n", Expect: "psnp-lists-every-ssn-entry"},
			{Name: "flags-cleared-per-interface", File: "protocols/isis/server/lsdb.go", Old: "\t\t\tifa.sendPSNP(&psnp, l.level())\n\t\t}\n\t}\n\n\tl._clearAllSSNFlags()\n", New: "\t\t\tifa.sendPSNP(&psnp, l.level())\n\t\t}\n\t\tl._clearAllSSNFlags()\n\t}\n", Expect: "all-flags-cleared-after-all-interfaces"},
			{Name: "placeholder-takes-the-advertised-number", File: "protocols/isis/server/lsdb_entry.go", Old: "\t\t\tSequenceNumber:    0,\n", New: "\t\t\tSequenceNumber:    lspEntry.SequenceNumber,\n", Expect: "placeholder-compares-lower-than-any-copy"},
			{Name: "lookup-under-read-lock-store-under-write-lock", File: "protocols/isis/server/lsdb.go", Old: "\tl.lspsMu.Lock()\n\tdefer l.lspsMu.Unlock()\n\n\texistingLSDBEntry, exists := l.lsps[lspdu.LSPID]\n", New: "\tl.lspsMu.Lock()\n\texistingLSDBEntry, exists := l.lsps[lspdu.LSPID]\n\tl.lspsMu.Unlock()\n\tl.lspsMu.Lock()\n\tdefer l.lspsMu.Unlock()\n", Expect: "decision-and-store-are-one-step"},
			{Name: "newer-lsp-replaced-in-place", File: "protocols/isis/server/lsdb.go", Old: "\tlsdbEntry := newLSDBEntry(lspdu)\n\n\tfor _, i := range l.srv.netIfaManager.getAllInterfacesExcept(ifa) {", New: "\tlsdbEntry, exists := l.lsps[lspdu.LSPID]\n\tif exists {\n\t\tlsdbEntry.lspdu = lspdu\n\t} else {\n\t\tlsdbEntry = newLSDBEntry(lspdu)\n\t}\n\n\tfor _, i := range l.srv.netIfaManager.getAllInterfacesExcept(ifa) {", Expect: "newer-copy-starts-from-clean-flags"},
			{Name: "refactor-entry-cases-reordered", Silent: true, File: "protocols/isis/server/lsdb.go", Old: "\tif e.sameAsInLSPEntry(lspEntry) {\n\t\te.clearSRMFlag(from)\n\t\treturn\n\t}\n\n\tif e.newerInDatabase(lspEntry) {\n\t\te.clearSSNFlag(from)\n\t\te.setSRM(from)\n\t\treturn\n\t}\n", New: "\tif e.newerInDatabase(lspEntry) {\n\t\te.setSRM(from)\n\t\te.clearSSNFlag(from)\n\t\treturn\n\t}\n\n\tif e.sameAsInLSPEntry(lspEntry) {\n\t\te.clearSRMFlag(from)\n\t\treturn\n\t}\n"},
			{Name: "refactor-aging-with-else", Silent: true, File: "protocols/isis/server/lsdb.go", Old: "\t\tif lspdbEntry.lspdu.RemainingLifetime <= 1 {\n\t\t\tdelete(l.lsps, lspid)\n\t\t\tcontinue\n\t\t}\n\n\t\tlspdbEntry.lspdu.RemainingLifetime--\n", New: "\t\tif lspdbEntry.lspdu.RemainingLifetime <= 1 {\n\t\t\tdelete(l.lsps, lspid)\n\t\t} else {\n\t\t\tlspdbEntry.lspdu.RemainingLifetime--\n\t\t}\n"},
			{Name: "store-on-equal-sequence", File: "protocols/isis/server/lsdb.go", Old: "\tif !exists || lspdu.SequenceNumber > existingLSDBEntry.lspdu.SequenceNumber {", New: "\tif !exists || lspdu.SequenceNumber >= existingLSDBEntry.lspdu.SequenceNumber {", Expect: "highest-sequence-kept"},
			{Name: "aging-decrements-first", File: "protocols/isis/server/lsdb.go", Old: "\t\tif lspdbEntry.lspdu.RemainingLifetime <= 1 {\n\t\t\tdelete(l.lsps, lspid)\n\t\t\tcontinue\n\t\t}\n\n\t\tlspdbEntry.lspdu.RemainingLifetime--\n", New: "\t\tlspdbEntry.lspdu.RemainingLifetime--\n\t\tif lspdbEntry.lspdu.RemainingLifetime == 0 {\n\t\t\tdelete(l.lsps, lspid)\n\t\t\tcontinue\n\t\t}\n", Expect: "aging-bounded"},
			{Name: "csnp-range-ignored", File: "protocols/isis/server/lsdb.go", Old: "\t\tif !csnp.RangeContainsLSPID(lspID) {\n\t\t\tcontinue\n\t\t}\n\n", New: "", Expect: "flag-rules"},
			{Name: "psnp-clears-send-flag-unconditionally", File: "protocols/isis/server/lsdb.go", Old: "\t\tl.processCSNPLSPEntry(lspEntry, from)\n\t}\n}\n\nfunc (l *lsdb) sendCSNPsRoutine", New: "\t\tl.lsps[lspEntry.LSPID].clearSRMFlag(from)\n\t}\n}\n\nfunc (l *lsdb) sendCSNPsRoutine", Expect: "flag-rules"},
			{Name: "own-copy-does-not-raise-counter", File: "protocols/isis/server/lsdb.go", Old: "\t\t\tl.srv.raiseL2SequenceNumber(lspdu.SequenceNumber)\n", New: "", Expect: "own-sequence-outnumbers"},
			{Name: "newer-in-database-clears-send-flag", File: "protocols/isis/server/lsdb.go", Old: "\tif e.newerInDatabase(lspEntry) {\n\t\te.clearSSNFlag(from)\n\t\te.setSRM(from)", New: "\tif e.newerInDatabase(lspEntry) {\n\t\te.clearSSNFlag(from)\n\t\te.clearSRMFlag(from)", Expect: "flag-rules"},
		},
	})
}

func runC32(c *core.Ctx) {
	allFlagsClearedAfterAllInterfaces(c, "all-flags-cleared-after-all-interfaces")
	newerCopyStartsFromCleanFlags(c)
	placeholderHasSequenceZero(c)
	psnpListsEverySSNEntry(c)
	decisionAndStoreAreOneStep(c, c.P.Func(isisSrv+".(*lsdb).processLSP"), c.P.Func(isisSrv+".(*lsdb).processCSNP"), c.P.Func(isisSrv+".(*lsdb).processPSNP"))
	p := c.P
	lspsF := p.Field(isisSrv, "lsdb", "lsps")
	seqF := p.Field("protocols/isis/packet", "LSPDU", "SequenceNumber")
	procLSP := c.MustFunc(isisSrv + ".(*lsdb).processLSP")
	newer := c.MustFunc(isisSrv + ".(*lsdb).processNewerLSPDU")
	entry := c.MustFunc(isisSrv + ".(*lsdb).processCSNPLSPEntry")
	csnp := c.MustFunc(isisSrv + ".(*lsdb).processCSNP")
	psnp := c.MustFunc(isisSrv + ".(*lsdb).processPSNP")
	aging := c.MustFunc(isisSrv + ".(*lsdb).decrementRemainingLifetimes")
	if procLSP == nil || newer == nil || entry == nil || csnp == nil || psnp == nil || aging == nil || lspsF == nil {
		return
	}
	c.Analysed(procLSP, newer, entry, csnp, psnp, aging)

	// (1) stores into the database
	nStores := 0
	for _, f := range p.MethodsOf(isisSrv, "lsdb") {
		if f.Decl.Body == nil {
			continue
		}
		ord := 0
		ast.Inspect(f.Decl.Body, func(n ast.Node) bool {
			as, ok := n.(*ast.AssignStmt)
			if !ok || len(as.Lhs) != 1 {
				return true
			}
			ix, isIx := core.Unparen(as.Lhs[0]).(*ast.IndexExpr)
			if !isIx || core.FieldOf(f.Pkg, ix.X) != lspsF {
				return true
			}
			ord++
			nStores++
			construct := fmt.Sprintf("%s database store #%d", f.Name(), ord)
			switch f {
			case newer:
				// guarded at its only call site
				calls := 0
				okGuard := true
				for _, g := range p.MethodsOf(isisSrv, "lsdb") {
					if g.Decl.Body == nil {
						continue
					}
					for _, call := range core.Calls(g.Pkg, g.Decl.Body, func(o *types.Func) bool { return o == newer.Obj }) {
						calls++
						if !newerGuard(g, call, seqF) {
							okGuard = false
						}
					}
				}
				c.Check(calls >= 1 && okGuard, "highest-sequence-kept", construct+" only for an unknown LSP or a higher sequence number", as.Pos(),
					"a received LSP is stored although the database holds a copy with the same or a higher sequence number: the newest copy is overwritten by an older one (or an equal one resets its flags and lifetime)")
			default:
				switch f.Decl.Name.Name {
				case "updateL2LSP":
					c.Hold("highest-sequence-kept", construct+" (own LSP)", as.Pos(), "origination of the own LSP: its number is above everything received (rule own-sequence-outnumbers)")
				case "processCSNPLSPEntryUnknown":
					// only reached for an unknown LSP ID
					ok := false
					for _, call := range core.Calls(entry.Pkg, entry.Decl.Body, func(o *types.Func) bool { return o == f.Obj }) {
						for _, ft := range core.CtlFactsAt(entry, call) {
							if x, isNil := core.IsNilCheck(entry.Pkg, ft.Expr); isNil && ft.Truth && x != nil {
								ok = true
							}
						}
					}
					c.Check(ok, "highest-sequence-kept", construct+" only for an LSP ID the database does not know", as.Pos(), "a placeholder entry (sequence number 0) overwrites a stored LSP")
				default:
					c.Fail("highest-sequence-kept", construct, as.Pos(), "an unexpected writer of the LSDB: not the newer-LSP path, not the own origination, not the CSNP placeholder")
				}
			}
			return true
		})
	}
	c.Check(nStores >= 3, "highest-sequence-kept", "database stores found", procLSP.Decl.Pos(), fmt.Sprintf("found %d, floor 3", nStores))

	// (2) flag rules ---------------------------------------------------------------------------------------------------------
	flagOps := func(f *core.Fn, stmts []ast.Stmt) []string {
		var ops []string
		for _, st := range stmts {
			ast.Inspect(st, func(n ast.Node) bool {
				if call, ok := n.(*ast.CallExpr); ok {
					if cal := core.Callee(f.Pkg, call); cal != nil {
						switch cal.Name() {
						case "setSRM", "setSSN", "clearSRMFlag", "clearSSNFlag":
							ops = append(ops, cal.Name())
						case "processSameLSPDU", "newerLocalLSPDU":
							if g := p.FnOf(cal); g != nil {
								for _, st2 := range g.Decl.Body.List {
									ast.Inspect(st2, func(m ast.Node) bool {
										if c2, isC := m.(*ast.CallExpr); isC {
											if cal2 := core.Callee(g.Pkg, c2); cal2 != nil && (strings.HasPrefix(cal2.Name(), "set") || strings.HasPrefix(cal2.Name(), "clear")) {
												ops = append(ops, cal2.Name())
											}
										}
										return true
									})
								}
							}
						}
					}
				}
				return true
			})
		}
		sort.Strings(ops)
		return ops
	}
	want := map[string][]string{
		"sameAsInLSPEntry": {"clearSRMFlag"},
		"newerInDatabase":  {"clearSSNFlag", "setSRM"},
		"olderInDatabase":  {"clearSRMFlag", "setSSN"},
	}
	seenCase := map[string]bool{}
	ast.Inspect(entry.Decl.Body, func(n ast.Node) bool {
		ifs, ok := n.(*ast.IfStmt)
		if !ok {
			return true
		}
		call, isC := core.Unparen(ifs.Cond).(*ast.CallExpr)
		if !isC {
			return true
		}
		cal := core.Callee(entry.Pkg, call)
		if cal == nil || want[cal.Name()] == nil {
			return true
		}
		seenCase[cal.Name()] = true
		got := flagOps(entry, ifs.Body.List)
		c.Check(strings.Join(got, ",") == strings.Join(want[cal.Name()], ","), "flag-rules", "SNP entry, case "+cal.Name(), ifs.Pos(),
			fmt.Sprintf("ISO 10589 §7.3.15.2 asks for {%s} in this case, the code does {%s}: LSPs are not (re)sent or not acknowledged as the update process requires", strings.Join(want[cal.Name()], ", "), strings.Join(got, ", ")))
		return true
	})
	for k := range want {
		c.Check(seenCase[k], "flag-rules", "SNP entry handles the case "+k, entry.Decl.Pos(), "case missing")
	}
	// the comparison helpers compare sequence numbers the right way round
	for name, op := range map[string]token.Token{"newerInDatabase": token.GTR, "olderInDatabase": token.LSS, "sameAsInLSPEntry": token.EQL} {
		f := c.MustFunc(isisSrv + ".(*lsdbEntry)." + name)
		if f == nil {
			continue
		}
		ok := false
		ast.Inspect(f.Decl.Body, func(n ast.Node) bool {
			be, isB := n.(*ast.BinaryExpr)
			if !isB || be.Op != op {
				return true
			}
			// left: the stored copy (receiver), right: the entry (parameter)
			if core.MentionsObj(f.Pkg, be.X, core.RecvObj(f)) && core.MentionsObj(f.Pkg, be.Y, core.ParamObj(f, 0)) && strings.HasSuffix(core.ExprString(be.X), "SequenceNumber") {
				ok = true
			}
			return true
		})
		c.Check(ok, "flag-rules", f.Name()+" compares the stored sequence number with the entry's ("+op.String()+")", f.Decl.Pos(), "the comparison of the stored copy with the SNP entry is not `stored "+op.String()+" entry` on the sequence numbers")
	}
	// received LSP: newer → SRM on all other interfaces, clear SRM + set SSN on the incoming one
	{
		got := flagOps(newer, newer.Decl.Body.List)
		c.Check(strings.Join(got, ",") == "clearSRMFlag,setSRM,setSSN", "flag-rules", newer.Name()+" floods to the others and acknowledges on the incoming interface", newer.Decl.Pos(), fmt.Sprintf("expected {setSRM (others), clearSRMFlag, setSSN (incoming)}, found {%s}", strings.Join(got, ", ")))
		except := false
		ast.Inspect(newer.Decl.Body, func(n ast.Node) bool {
			if rs, ok := n.(*ast.RangeStmt); ok {
				if call, isC := core.Unparen(rs.X).(*ast.CallExpr); isC {
					if cal := core.Callee(newer.Pkg, call); cal != nil && cal.Name() == "getAllInterfacesExcept" && len(call.Args) == 1 && core.ObjOf(newer.Pkg, call.Args[0]) == core.ParamObj(newer, 0) {
						except = true
					}
				}
			}
			return true
		})
		c.Check(except, "flag-rules", newer.Name()+" sets the send flag on every interface except the incoming one", newer.Decl.Pos(), "the new LSP is not flooded to all other interfaces")
	}
	if f := p.Func(isisSrv + ".(*lsdbEntry).processSameLSPDU"); f != nil {
		got := flagOps(f, f.Decl.Body.List)
		c.Check(strings.Join(got, ",") == "clearSRMFlag,setSSN", "flag-rules", f.Name()+" (same sequence number received)", f.Decl.Pos(), fmt.Sprintf("expected {clearSRMFlag, setSSN}, found {%s}", strings.Join(got, ", ")))
	}
	if f := p.Func(isisSrv + ".(*lsdbEntry).newerLocalLSPDU"); f != nil {
		got := flagOps(f, f.Decl.Body.List)
		c.Check(strings.Join(got, ",") == "clearSSNFlag,setSRM", "flag-rules", f.Name()+" (older sequence number received)", f.Decl.Pos(), fmt.Sprintf("expected {setSRM, clearSSNFlag}, found {%s}", strings.Join(got, ", ")))
	}
	// PSNP entries go through the same decision as CSNP entries
	{
		viaEntry := len(core.Calls(psnp.Pkg, psnp.Decl.Body, func(o *types.Func) bool { return o == entry.Obj })) > 0
		direct := false
		for _, call := range core.Calls(psnp.Pkg, psnp.Decl.Body, func(o *types.Func) bool { return o.Name() == "clearSRMFlag" || o.Name() == "setSRM" }) {
			_ = call
			direct = true
		}
		c.Check(viaEntry && !direct, "flag-rules", psnp.Name()+" decides per entry on the sequence number", psnp.Decl.Pos(),
			"a PSNP entry changes the send flag without the stored copy being compared with the entry's sequence number: an acknowledgement of an older copy stops the flooding of the newer one")
	}
	// CSNP: entries not described → SRM only inside the range and when not listed
	{
		n := 0
		for _, call := range core.Calls(csnp.Pkg, csnp.Decl.Body, func(o *types.Func) bool { return o.Name() == "setSRM" }) {
			n++
			inRange, notListed := false, false
			for _, ft := range core.FactsAt(csnp, call) {
				if cl := core.CallOf(csnp, ft.Expr); cl != nil {
					if cal := core.Callee(csnp.Pkg, cl); cal != nil {
						if cal.Name() == "RangeContainsLSPID" && ft.Truth {
							inRange = true
						}
						if cal.Name() == "ContainsLSPEntry" && !ft.Truth {
							notListed = true
						}
					}
				}
			}
			c.Check(inRange && notListed, "flag-rules", csnp.Name()+" re-floods only LSPs inside the CSNP's range that it does not list", call.Pos(),
				"the send flag is set for an LSP that the CSNP lists, or that lies outside the range the CSNP describes: with partial-range CSNPs (large databases) LSPs are re-flooded on every CSNP")
		}
		c.Check(n == 1, "flag-rules", csnp.Name()+" 'not described' rule found", csnp.Decl.Pos(), fmt.Sprintf("expected one setSRM in processCSNP, found %d", n))
	}

	// (3) aging ---------------------------------------------------------------------------------------------------------------
	lifeF := p.Field("protocols/isis/packet", "LSPDU", "RemainingLifetime")
	{
		nDec := 0
		ast.Inspect(aging.Decl.Body, func(n ast.Node) bool {
			dec, ok := n.(*ast.IncDecStmt)
			if !ok || dec.Tok != token.DEC || core.FieldOf(aging.Pkg, dec.X) != lifeF || lifeF == nil {
				return true
			}
			nDec++
			ok2 := false
			for _, ft := range core.FactsAt(aging, dec) {
				be, isB := core.Unparen(ft.Expr).(*ast.BinaryExpr)
				if !isB || core.FieldOf(aging.Pkg, be.X) != lifeF {
					continue
				}
				v := core.ConstOf(aging.Pkg, be.Y)
				if v == nil {
					continue
				}
				k, _ := constantInt(v)
				// lifetime > 0 established: (<= k false, k ≥ 0) or (< k false, k ≥ 1) or (> k true, k ≥ 0) or (== 0 false) …
				if (be.Op == token.LEQ && !ft.Truth && k >= 0) || (be.Op == token.LSS && !ft.Truth && k >= 1) || (be.Op == token.GTR && ft.Truth && k >= 0) || (be.Op == token.GEQ && ft.Truth && k >= 1) || (be.Op == token.EQL && !ft.Truth && k == 0) {
					ok2 = true
				}
			}
			c.Check(ok2, "aging-bounded", aging.Name()+" decrements only a positive remaining lifetime", dec.Pos(),
				"the remaining lifetime is decremented without a dominating test that it is above zero: an entry at 0 (a purge, a CSNP placeholder) wraps to 65535 and lives for another 18 hours instead of ageing out")
			return true
		})
		c.Check(nDec == 1, "aging-bounded", aging.Name()+" ages every entry by one per tick", aging.Decl.Pos(), fmt.Sprintf("found %d decrements of RemainingLifetime", nDec))
		// deletion at the end of life
		okDel := false
		ast.Inspect(aging.Decl.Body, func(n ast.Node) bool {
			call, ok := n.(*ast.CallExpr)
			if !ok || core.ExprString(call.Fun) != "delete" {
				return true
			}
			for _, ft := range core.CtlFactsAt(aging, call) {
				if be, isB := core.Unparen(ft.Expr).(*ast.BinaryExpr); isB && ft.Truth && core.FieldOf(aging.Pkg, be.X) == lifeF {
					okDel = true
				}
			}
			return true
		})
		c.Check(okDel, "aging-bounded", aging.Name()+" removes an entry at the end of its lifetime", aging.Decl.Pos(), "entries are not removed when their remaining lifetime runs out")
		// refresh of the own LSP
		okRef := false
		for _, call := range core.Calls(aging.Pkg, aging.Decl.Body, func(o *types.Func) bool { return o.Name() == "requestL2LSPUpdate" }) {
			own, low := false, false
			for _, ft := range core.CtlFactsAt(aging, call) {
				s := core.ExprString(ft.Expr)
				if ft.Truth && strings.Contains(s, "systemID()") {
					own = true
				}
				if be, isB := core.Unparen(ft.Expr).(*ast.BinaryExpr); isB && ft.Truth && core.FieldOf(aging.Pkg, be.X) == lifeF && (be.Op == token.LSS || be.Op == token.LEQ) {
					low = true
				}
			}
			if own && low {
				okRef = true
			}
		}
		c.Check(okRef, "aging-bounded", aging.Name()+" asks for a refresh of the own LSP before it expires", aging.Decl.Pos(), "the own LSP is not refreshed when its remaining lifetime falls below the refresh threshold: it ages out of every other router's database")
	}

	// (4) own sequence number -----------------------------------------------------------------------------------------------
	if next := c.MustFunc(isisSrv + ".(*Server).nextL2SequencenNumber"); next != nil {
		ctrF := p.Field(isisSrv, "Server", "sequenceNumberL2")
		inc, skip0 := false, false
		ast.Inspect(next.Decl.Body, func(n ast.Node) bool {
			if d, ok := n.(*ast.IncDecStmt); ok && d.Tok == token.INC && core.FieldOf(next.Pkg, d.X) == ctrF {
				inc = true
				for _, ft := range core.CtlFactsAt(next, d) {
					if be, isB := core.Unparen(ft.Expr).(*ast.BinaryExpr); isB && ft.Truth && be.Op == token.EQL && core.FieldOf(next.Pkg, be.X) == ctrF && core.ExprString(be.Y) == "0" {
						skip0 = true
					}
				}
			}
			return true
		})
		c.Check(inc && skip0, "own-sequence-outnumbers", next.Name()+" increments the counter and skips 0", next.Decl.Pos(), "the own sequence number does not strictly increase, or can be 0 (which other routers treat as 'no LSP')")
	}
	{
		raise := p.Func(isisSrv + ".(*Server).raiseL2SequenceNumber")
		ok := false
		if raise != nil {
			for _, call := range core.Calls(procLSP.Pkg, procLSP.Decl.Body, func(o *types.Func) bool { return o == raise.Obj }) {
				own, isNewer := false, false
				for _, ft := range core.CtlFactsAt(procLSP, call) {
					s := core.ExprString(ft.Expr)
					if ft.Truth && strings.Contains(s, "systemID()") {
						own = true
					}
					if ft.Truth && strings.Contains(s, "SequenceNumber >") {
						isNewer = true
					}
				}
				if own && isNewer && len(call.Args) == 1 && core.FieldOf(procLSP.Pkg, call.Args[0]) == seqF {
					ok = true
				}
			}
			// raise sets the counter to at least the argument
			good := false
			ast.Inspect(raise.Decl.Body, func(n ast.Node) bool {
				if as, isAs := n.(*ast.AssignStmt); isAs && len(as.Lhs) == 1 && core.ObjOf(raise.Pkg, as.Rhs[0]) == core.ParamObj(raise, 0) {
					for _, ft := range core.CtlFactsAt(raise, as) {
						if be, isB := core.Unparen(ft.Expr).(*ast.BinaryExpr); isB && ft.Truth && be.Op == token.GTR && core.ObjOf(raise.Pkg, be.X) == core.ParamObj(raise, 0) {
							good = true
						}
					}
				}
				return true
			})
			ok = ok && good
		}
		c.Check(ok, "own-sequence-outnumbers", procLSP.Name()+" raises the own counter to a received newer copy of the own LSP", procLSP.Decl.Pos(),
			"a copy of the own LSP with a higher sequence number than the local counter is stored but the counter stays: the next own LSP has a lower number than the copy the network holds, and every other router ignores it")
	}
}

// newerGuard: the call is control-dependent on `!exists || received.SequenceNumber > stored.SequenceNumber`.
func newerGuard(f *core.Fn, call *ast.CallExpr, seqF *types.Var) bool {
	for _, ft := range core.CtlFactsAt(f, call) {
		if !ft.Truth {
			continue
		}
		be, ok := core.Unparen(ft.Expr).(*ast.BinaryExpr)
		if !ok || be.Op != token.LOR {
			continue
		}
		okL, okR := false, false
		if ue, isU := core.Unparen(be.X).(*ast.UnaryExpr); isU && ue.Op == token.NOT {
			okL = true
		}
		if cmp, isB := core.Unparen(be.Y).(*ast.BinaryExpr); isB && cmp.Op == token.GTR && core.FieldOf(f.Pkg, cmp.X) == seqF && core.FieldOf(f.Pkg, cmp.Y) == seqF && seqF != nil {
			// left operand is the received LSP (a parameter), right the stored one
			if core.MentionsObj(f.Pkg, cmp.X, core.ParamObj(f, 1)) && !core.MentionsObj(f.Pkg, cmp.Y, core.ParamObj(f, 1)) {
				okR = true
			}
		}
		if okL && okR {
			return true
		}
	}
	return false
}

// newerCopyStartsFromCleanFlags: when a newer copy of an LSP arrives, the flags of the older copy are void: ISO 10589
// 7.3.15.1 e) sets SRM on all other circuits, clears it and sets SSN on the receiving one, and clears SSN on all others.
// bio-rd gets the clearing by installing a FRESH entry.  Rule: in processNewerLSPDU the entry on which the flags are set
// and which is stored in the LSDB is built by an entry constructor (newLSDBEntry) on every path — never an entry read
// out of the LSDB.
func newerCopyStartsFromCleanFlags(c *core.Ctx) {
	const rule = "newer-copy-starts-from-clean-flags"
	p := c.P
	c.Floor(rule, 1)
	f := c.MustFunc(isisSrv + ".(*lsdb).processNewerLSPDU")
	ctor := p.Func(isisSrv + ".newLSDBEntry")
	lspsF := p.Field(isisSrv, "lsdb", "lsps")
	if f == nil || ctor == nil || lspsF == nil {
		return
	}
	c.Analysed(f)
	fresh := func(o types.Object) (bool, string) {
		defs := core.DefsOf(f, o)
		if len(defs) == 0 {
			return false, "no definition found"
		}
		for _, d := range defs {
			call, ok := core.Unparen(d).(*ast.CallExpr)
			if !ok || core.Callee(f.Pkg, call) != ctor.Obj {
				return false, "defined by `" + core.ExprString(d) + "`"
			}
		}
		return true, ""
	}
	n := 0
	ast.Inspect(f.Decl.Body, func(nd ast.Node) bool {
		// the entry stored in the LSDB
		if as, ok := nd.(*ast.AssignStmt); ok && len(as.Lhs) == 1 && len(as.Rhs) == 1 {
			if ie, isIdx := core.Unparen(as.Lhs[0]).(*ast.IndexExpr); isIdx && core.FieldOf(f.Pkg, ie.X) == lspsF {
				n++
				o := core.ObjOf(f.Pkg, as.Rhs[0])
				ok, why := false, "the stored value is not a local entry"
				if o != nil {
					ok, why = fresh(o)
				}
				c.Check(ok, rule, f.Name()+" stores a freshly built entry", as.Pos(), "the entry stored for the newer copy is not built by newLSDBEntry on every path ("+why+"): an existing entry is reused, so the acknowledge/send flags of the older copy on other circuits survive — a PSNP then acknowledges on a circuit a sequence number that circuit never sent")
			}
		}
		// the entry the flags are set on
		if call, ok := nd.(*ast.CallExpr); ok {
			if sel, isSel := call.Fun.(*ast.SelectorExpr); isSel && (sel.Sel.Name == "setSRM" || sel.Sel.Name == "setSSN") {
				if o := core.ObjOf(f.Pkg, sel.X); o != nil {
					n++
					ok, why := fresh(o)
					c.Check(ok, rule, f.Name()+" sets "+sel.Sel.Name[3:]+" on a freshly built entry", call.Pos(), "flags are set on an entry that is not built by newLSDBEntry on every path ("+why+")")
				}
			}
		}
		return true
	})
	c.Check(n >= 2, rule, f.Name()+" stores an entry and sets its flags", f.Decl.Pos(), "the store into the LSDB / the flag updates were not found")
}
