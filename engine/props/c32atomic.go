package props

import (
	"fmt"
	"go/ast"
	"go/types"
	"strings"

	"verif/engine/core"
)

// decisionAndStoreAreOneStep: "keeps the copy with the highest sequence number" is a compare-then-store on the LSDB
// map.  The functions that take that decision for a received PDU (processLSP, processCSNP, processPSNP) read the map
// and — directly or through their helpers — write it; the whole decision has to sit in ONE write-mode critical section
// of the LSDB lock: a lookup under the read lock (or a lock released before the store) lets two receivers compare
// against the same old copy and the older of two new copies win.
func decisionAndStoreAreOneStep(c *core.Ctx, fns ...*core.Fn) {
	const rule = "decision-and-store-are-one-step"
	p := c.P
	lspsF := p.Field(isisSrv, "lsdb", "lsps")
	if lspsF == nil {
		c.Check(false, rule, "lsdb.lsps", 0, "field not found")
		return
	}
	for _, f := range fns {
		if f == nil || f.Decl.Body == nil {
			continue
		}
		c.Analysed(f)
		// does it (transitively, inside the package) write the map?
		writes := false
		for _, g := range p.ReachableFns(f) {
			if g.Decl.Body == nil {
				continue
			}
			ast.Inspect(g.Decl.Body, func(n ast.Node) bool {
				switch x := n.(type) {
				case *ast.AssignStmt:
					for _, l := range x.Lhs {
						if ie, ok := core.Unparen(l).(*ast.IndexExpr); ok && core.FieldOf(g.Pkg, ie.X) == lspsF {
							writes = true
						}
						if core.FieldOf(g.Pkg, l) == lspsF {
							writes = true
						}
					}
				case *ast.CallExpr:
					if id, ok := x.Fun.(*ast.Ident); ok && id.Name == "delete" && len(x.Args) == 2 && core.FieldOf(g.Pkg, x.Args[0]) == lspsF {
						writes = true
					}
				}
				return true
			})
		}
		if !writes {
			continue
		}
		ls := p.ComputeLocksets(f, nil)
		// lock operations on lspsMu
		readMode, released := false, ast.Node(nil)
		var relNodes []ast.Node
		ast.Inspect(f.Decl.Body, func(n ast.Node) bool {
			switch x := n.(type) {
			case *ast.DeferStmt:
				return false // a deferred release runs at the exit
			case *ast.CallExpr:
				if op, ok := core.LockOpOf(f, x); ok && op.Class.Name() == "lspsMu" {
					if op.Acquire && op.Read {
						readMode = true
					}
					if !op.Acquire {
						relNodes = append(relNodes, x)
					}
				}
			}
			return true
		})
		nReads := 0
		ast.Inspect(f.Decl.Body, func(n ast.Node) bool {
			ie, ok := n.(*ast.IndexExpr)
			if !ok || core.FieldOf(f.Pkg, ie.X) != lspsF {
				return true
			}
			nReads++
			held := false
			for k := range ls.MustAt(ie) {
				if strings.HasSuffix(k, ".lspsMu") {
					held = true
				}
			}
			construct := fmt.Sprintf("%s lookup #%d of the LSDB", f.Name(), nReads)
			if !held || readMode {
				c.Check(false, rule, construct, ie.Pos(), "the copy the received PDU is compared with is looked up without the LSDB lock held in write mode, while the same decision goes on to replace the entry: two PDUs for one LSP ID processed concurrently both compare against the old copy and the lower sequence number can be stored last")
				return true
			}
			// no explicit release between the lookup and the end of the decision
			g := p.CFG(f)
			hits := core.PathAvoidingFrom(g,
				func(nd ast.Node) bool { return core.NodeHas(nd, func(x ast.Node) bool { return x == ast.Node(ie) }) },
				func(ast.Node) bool { return false },
				func(nd ast.Node) bool {
					if _, isDefer := nd.(*ast.DeferStmt); isDefer {
						return false
					}
					for _, r := range relNodes {
						if core.NodeHas(nd, func(x ast.Node) bool { return x == r }) {
							released = r
							return true
						}
					}
					return false
				})
			c.Check(len(hits) == 0, rule, construct, ie.Pos(), "the LSDB lock is released between looking up the stored copy and acting on the comparison (store / flag updates): the decision is taken on a copy that may have been replaced meanwhile")
			return true
		})
		_ = released
	}
}

// placeholderHasSequenceZero: the entry created for an LSP that a CSNP describes but the LSDB does not hold is a
// placeholder.  It must compare LOWER than any real copy (sequence number 0): with the advertised sequence number the
// real LSP, when it arrives, is "the same" and is not stored.
func placeholderHasSequenceZero(c *core.Ctx) {
	const rule = "placeholder-compares-lower-than-any-copy"
	p := c.P
	seqF := p.Field("protocols/isis/packet", "LSPDU", "SequenceNumber")
	n := 0
	for _, f := range p.FuncsIn(isisSrv) {
		if f.Decl.Body == nil || isTestFn(p, f) {
			continue
		}
		sig := f.Obj.Type().(*types.Signature)
		if sig.Params().Len() != 1 || sig.Results().Len() != 1 || !strings.HasSuffix(sig.Params().At(0).Type().String(), "packet.LSPEntry") || !strings.HasSuffix(sig.Results().At(0).Type().String(), ".lsdbEntry") {
			continue
		}
		n++
		c.Analysed(f)
		ok := true
		var at ast.Node = f.Decl
		ast.Inspect(f.Decl.Body, func(x ast.Node) bool {
			switch y := x.(type) {
			case *ast.KeyValueExpr:
				if id, isId := y.Key.(*ast.Ident); isId && f.Pkg.TypesInfo.ObjectOf(id) == types.Object(seqF) {
					if v := core.ConstOf(f.Pkg, y.Value); v == nil || v.ExactString() != "0" {
						ok, at = false, y
					}
				}
			case *ast.AssignStmt:
				for i, l := range y.Lhs {
					if core.FieldOf(f.Pkg, l) == seqF && i < len(y.Rhs) {
						if v := core.ConstOf(f.Pkg, y.Rhs[i]); v == nil || v.ExactString() != "0" {
							ok, at = false, y
						}
					}
				}
			}
			return true
		})
		c.Check(ok, rule, f.Name()+" creates the placeholder with sequence number 0", at.Pos(),
			"the placeholder entry for an LSP known only from a CSNP takes a sequence number other than 0: when the LSP itself arrives with the advertised number it is `not newer` than the placeholder and is dropped — the database never holds the copy with the highest sequence number")
	}
	c.Check(n >= 1, rule, "placeholder constructors found", 0, "no function building an lsdbEntry from a CSNP's LSPEntry found")
}

// psnpListsEverySSNEntry: a PSNP on a circuit carries an entry for EVERY database entry whose SSN flag is set for that
// circuit — including the sequence-number-0 placeholders created for LSPs a neighbor's CSNP described and we do not
// hold: listing them is how the missing LSP is requested.  Rule: in the code that collects the entries for a PSNP
// (reachable from _getLSPWithSSNSet) the only condition an entry is selected by is its SSN flag.
func psnpListsEverySSNEntry(c *core.Ctx) {
	const rule = "psnp-lists-every-ssn-entry"
	p := c.P
	f := c.MustFunc(isisSrv + ".(*lsdb)._getLSPWithSSNSet")
	getSSN := p.Func(isisSrv + ".(*lsdbEntry).getSSN")
	lspsF := p.Field(isisSrv, "lsdb", "lsps")
	if f == nil || getSSN == nil || lspsF == nil {
		return
	}
	n := 0
	for _, g := range p.ReachableFns(f) {
		if g.Decl.Body == nil || g.Pkg != f.Pkg {
			continue
		}
		ast.Inspect(g.Decl.Body, func(nd ast.Node) bool {
			rs, ok := nd.(*ast.RangeStmt)
			if !ok || core.FieldOf(g.Pkg, rs.X) != lspsF {
				return true
			}
			n++
			c.Analysed(g)
			ast.Inspect(rs.Body, func(m ast.Node) bool {
				as, isAs := m.(*ast.AssignStmt)
				if !isAs || len(as.Rhs) != 1 {
					return true
				}
				call, isCall := core.Unparen(as.Rhs[0]).(*ast.CallExpr)
				if !isCall {
					return true
				}
				if id, isId := call.Fun.(*ast.Ident); !isId || id.Name != "append" {
					return true
				}
				bad := ""
				for _, ft := range core.CtlFactsAt(g, as) {
					if ft.Expr == nil || ft.Expr.Pos() < rs.Body.Pos() || ft.Expr.End() > rs.Body.End() {
						continue
					}
					onlySSN := len(core.Calls(g.Pkg, ft.Expr, func(o *types.Func) bool { return o == getSSN.Obj })) > 0
					if cl := core.CallOf(g, ft.Expr); cl != nil && core.Callee(g.Pkg, cl) == getSSN.Obj {
						onlySSN = true
					}
					if !onlySSN {
						bad = core.ExprString(ft.Expr)
					}
				}
				c.Check(bad == "", rule, g.Name()+" selects PSNP entries by the SSN flag alone", as.Pos(),
					"an entry with its SSN flag set is left out of the PSNP under `"+bad+"`: the flag is cleared after sending all the same, so the acknowledgement or — for a placeholder — the request for the missing LSP never goes out")
				return true
			})
			return true
		})
	}
	c.Check(n >= 1, rule, "PSNP entry collection loop found", f.Decl.Pos(), "no loop over the LSDB reachable from _getLSPWithSSNSet")
}
