package props

import (
	"fmt"
	"go/ast"
	"go/token"
	"go/types"
	"strings"

	"verif/engine/core"
)

const isisSrv = "protocols/isis/server"

func init() {
	Register(&Prop{
		Meta: core.Meta{
			ID: "C33", Title: "IS-IS survives any sequence of interface state changes", Level: "other",
			Technique:   "typestate/pairing rules on the start/stop pair of the interface object (typed AST + go/cfg): what stop consumes start re-creates, what start sets stop clears, what start creates conditionally stop uses conditionally; lock rules of C25 over the IS-IS and device packages plus a wait-under-lock rule",
			DesignRef:   "DESIGN.md §4 C33",
			Decided:     "(1) every channel that the stop path closes and every ticker that the stopped routines stop is re-created by the start path before it starts the routines; (2) the running flag that makes start refuse to run twice is cleared by stop on every path; (3) a resource that start creates only for active interfaces is used by stop only behind a test that it exists; (3b) the two fields of the interface object that depend on the link history (the ethernet handle: nil while the link is down and on passive interfaces; the device status: nil until the first device update) are dereferenced only behind a nil test, inside the routines that live between start and stop, behind a test at every call site, or at a reviewed exemption — the periodic LSDB work runs for every interface whatever its link state; (4) over protocols/isis/server and protocols/device: no lock leaked on a return path, no lock-order cycle, no re-acquisition of a held lock on the same object, no unbuffered send under a lock the receiver needs, and no WaitGroup.Wait under a lock that a goroutine counted by that WaitGroup takes.",
			NotDecided:  "that hellos are in fact sent and adjacencies form again (behaviour of the routines once restarted); link event sequences are not enumerated — the rules hold for every sequence because they are per-transition invariants of the start/stop pair.",
			TrustedBase: stdTrusted,
		},
		Run: runC33,
		Controls: []Control{
			{Name: "csnp-tick-assumes-a-level-2-manager", File: "protocols/isis/server/lsdb.go", Old: "\t\tif ifa.neighborManagerL2 == nil || len(ifa.neighborManagerL2.getNeighborsUp()) < 1 {", New: "\t\tif len(ifa.neighborManagerL2.getNeighborsUp()) < 1 {", Expect: "level-handle-guarded"},
			{Name: "down-neighbor-replaced-in-the-map", File: "protocols/isis/server/neighbor_manager.go", Old: "\tif _, found := nm.neighbors[src]; !found {\n\t\tn := nm.neighborFromP2PHello(hello, src)\n", New: "\tif old, found := nm.neighbors[src]; !found || old.getState() == packet.P2PAdjStateDown {\n\t\tn := nm.neighborFromP2PHello(hello, src)\n", Expect: "neighbor-entry-created-only-when-absent"},
			{Name: "failed-join-closes-the-handle-and-keeps-it", File: "protocols/isis/server/net_ifa.go", Old: "\t\tif err != nil {\n\t\t\tnifa._stop()\n\t\t\treturn fmt.Errorf(\"unable to join IS p2p hello multicast group: %w\", err)\n", New: "\t\tif err != nil {\n\t\t\tnifa.ethernetInterface.Close()\n\t\t\treturn fmt.Errorf(\"unable to join IS p2p hello multicast group: %w\", err)\n", Expect: "closed-handle-is-forgotten"},
			{Name: "done-closed-on-every-stop", File: "protocols/isis/server/net_ifa.go", Old: "\tif nifa.ethernetInterface != nil {\n\t\tclose(nifa.done)\n\t\tnifa.ethernetInterface.Close()\n\t}\n", New: "\tclose(nifa.done)\n\tif nifa.ethernetInterface != nil {\n\t\tnifa.ethernetInterface.Close()\n\t}\n", Expect: "restart-recreates-consumed"},
			{Name: "psnp-tick-on-down-interface", File: "protocols/isis/server/lsdb.go", Old: "\t\teth := ifa.ethernetInterface\n\t\tif eth == nil {\n\t\t\tcontinue\n\t\t}\n\n\t\tlspdus := l._getLSPWithSSNSet(ifa)\n\t\tfor _, psnp := range packet.NewPSNPs(srcID, lspdus, eth.GetMTU()) {", New: "\t\tlspdus := l._getLSPWithSSNSet(ifa)\n\t\tfor _, psnp := range packet.NewPSNPs(srcID, lspdus, ifa.ethernetInterface.GetMTU()) {", Expect: "link-state-handle-guarded"},
			{Name: "lsp-origination-before-first-device-update", File: "protocols/isis/server/net_ifa_manager.go", Old: "\t\tif ifa.devStatus == nil {\n\t\t\tcontinue\n\t\t}\n", New: "", Expect: "link-state-handle-guarded"},
			{Name: "refactor-handle-tested-in-place", Silent: true, File: "protocols/isis/server/lsdb.go", Old: "\t\teth := ifa.ethernetInterface\n\t\tif eth == nil {\n\t\t\tcontinue\n\t\t}\n\n\t\tlspdus := l._getLSPWithSSNSet(ifa)\n\t\tfor _, psnp := range packet.NewPSNPs(srcID, lspdus, eth.GetMTU()) {", New: "\t\tif ifa.ethernetInterface != nil {\n\t\t\tfor _, psnp := range packet.NewPSNPs(srcID, l._getLSPWithSSNSet(ifa), ifa.ethernetInterface.GetMTU()) {\n\t\t\t\tifa.sendPSNP(&psnp, l.level())\n\t\t\t}\n\t\t}\n\t\tlspdus := []*packet.LSPEntry{}\n\t\tfor _, psnp := range packet.NewPSNPs(srcID, lspdus, 0) {"},
			{Name: "refactor-flag-cleared-before-wait", Silent: true, File: "protocols/isis/server/net_ifa.go", Old: "\tnifa.srv.updateL2LSP()\n\tnifa.wg.Wait()\n\tnifa.ethernetInterface = nil\n\tnifa.initialized = false\n", New: "\tnifa.initialized = false\n\tnifa.srv.updateL2LSP()\n\tnifa.wg.Wait()\n\tnifa.ethernetInterface = nil\n"},
			{Name: "status-not-recorded-on-down", File: "protocols/isis/server/net_ifa.go", Old: "\tnifa.devStatus = dev\n\tif oldState != device.IfOperUp && dev.GetOperState() == device.IfOperUp {", New: "\tif oldState != device.IfOperUp && dev.GetOperState() == device.IfOperUp {\n\t\tnifa.devStatus = dev", Expect: "handler-records-status"},
			{Name: "done-channel-not-recreated", File: "protocols/isis/server/net_ifa.go", Old: "\t\tnifa.done = make(chan struct{})\n", New: "", Expect: "restart-recreates-consumed"},
			{Name: "ticker-not-recreated", File: "protocols/isis/server/net_ifa.go", Old: "\t\tnifa.helloTicker = clock.Ticker(time.Duration(nifa.cfg.getMinHelloInterval()) * time.Second)\n\n", New: "\n", Expect: "restart-recreates-consumed"},
			{Name: "running-flag-not-cleared", File: "protocols/isis/server/net_ifa.go", Old: "\tnifa.ethernetInterface = nil\n\tnifa.initialized = false\n", New: "\tnifa.ethernetInterface = nil\n", Expect: "stop-clears-running-flag"},
			{Name: "passive-close-unguarded", File: "protocols/isis/server/net_ifa.go", Old: "\tif nifa.ethernetInterface != nil {\n\t\tclose(nifa.done)\n\t\tnifa.ethernetInterface.Close()\n\t}\n", New: "\tclose(nifa.done)\n\tnifa.ethernetInterface.Close()\n", Expect: "conditional-resource-used-conditionally"},
			{Name: "device-monitor-locks-twice", File: "protocols/device/server_linux.go", Old: "\t\to.srv.devices[d.index] = d\n\t}\n\n\to.srv.devices[uint64(attrs.Index)].updateLink(attrs)", New: "\t\to.srv.addDevice(d)\n\t}\n\n\to.srv.devices[uint64(attrs.Index)].updateLink(attrs)", Expect: "no-reacquire-on-same-instance"},
			{Name: "hello-sender-takes-interface-lock", File: "protocols/isis/server/hello_sender.go", Old: "func (nifa *netIfa) p2pHello() *packet.P2PHello {\n", New: "func (nifa *netIfa) p2pHello() *packet.P2PHello {\n\tnifa.mu.RLock()\n\tdefer nifa.mu.RUnlock()\n", Expect: "no-wait-under-needed-lock"},
		},
	})
}

func c33Scope(f *core.Fn) bool {
	rel := strings.TrimPrefix(f.Pkg.PkgPath, core.Mod+"/")
	return rel == isisSrv || rel == "protocols/device"
}

func runC33(c *core.Ctx) {
	neighborEntryCreatedOnlyWhenAbsent(c, "neighbor-entry-created-only-when-absent")
	closedHandleIsForgotten(c)
	levelHandlesGuarded(c)
	linkStateHandles(c)
	p := c.P
	start := c.MustFunc(isisSrv + ".(*netIfa)._start")
	stop := c.MustFunc(isisSrv + ".(*netIfa)._stop")
	upd := c.MustFunc(isisSrv + ".(*netIfa).DeviceUpdate")
	if start == nil || stop == nil || upd == nil {
		return
	}
	c.Analysed(start, stop, upd)
	// the handler calls both, so both run repeatedly on one object
	callsBoth := len(core.Calls(upd.Pkg, upd.Decl.Body, func(o *types.Func) bool { return o == start.Obj })) > 0 && len(core.Calls(upd.Pkg, upd.Decl.Body, func(o *types.Func) bool { return o == stop.Obj })) > 0
	c.Check(callsBoth, "restart-recreates-consumed", upd.Name()+" starts and stops the interface on link transitions", upd.Decl.Pos(), "the link event handler no longer calls both _start and _stop: the pair the rules are about moved")

	// the handler's next decision is based on the recorded status: every path through it records the new one
	if ds := p.Field(isisSrv, "netIfa", "devStatus"); ds != nil {
		devPar := core.ParamObj(upd, 0)
		records := func(n ast.Node) bool {
			as, ok := n.(*ast.AssignStmt)
			return ok && len(as.Lhs) == 1 && core.FieldOf(upd.Pkg, as.Lhs[0]) == ds && core.ObjOf(upd.Pkg, as.Rhs[0]) == devPar && devPar != nil
		}
		rets, implicit := core.ExitsWithout(p.CFG(upd), records)
		c.Check(len(rets) == 0 && !implicit, "handler-records-status", upd.Name()+" records the new device status on every path", upd.Decl.Pos(),
			"a link event can be handled without the new status being recorded: the next event is compared with a stale status, so a later link-up is not seen as a transition and the interface is never started again (or a second down runs the stop path twice)")
	}

	// goroutines started by start, and what they can reach
	var routines []*core.Fn
	var firstGo token.Pos
	ast.Inspect(start.Decl.Body, func(n ast.Node) bool {
		if g, ok := n.(*ast.GoStmt); ok {
			if firstGo == token.NoPos {
				firstGo = g.Pos()
			}
			if f := p.FnOf(core.Callee(start.Pkg, g.Call)); f != nil {
				routines = append(routines, f)
			}
		}
		return true
	})
	c.Check(len(routines) >= 2, "restart-recreates-consumed", start.Name()+" starts the interface routines", start.Decl.Pos(), fmt.Sprintf("found %d `go` statements in _start, expected the hello sender and the receiver", len(routines)))
	reach := p.ReachableFns(routines...)

	// (1) consumed: channels closed by stop (or by what stop calls on the receiver), tickers stopped by the routines
	type consumed struct {
		field *types.Var
		how   string
		pos   token.Pos
	}
	var cons []consumed
	recvType := "netIfa"
	collect := func(f *core.Fn) {
		ast.Inspect(f.Decl.Body, func(n ast.Node) bool {
			call, ok := n.(*ast.CallExpr)
			if !ok {
				return true
			}
			if id, isId := call.Fun.(*ast.Ident); isId && id.Name == "close" && len(call.Args) == 1 {
				if fv := core.FieldOf(f.Pkg, call.Args[0]); fv != nil && ownerName(fv) == recvType {
					cons = append(cons, consumed{fv, "closed in " + f.Name(), call.Pos()})
				}
			}
			if se, isSel := call.Fun.(*ast.SelectorExpr); isSel && se.Sel.Name == "Stop" {
				if fv := core.FieldOf(f.Pkg, se.X); fv != nil && ownerName(fv) == recvType {
					cons = append(cons, consumed{fv, "stopped in " + f.Name(), call.Pos()})
				}
			}
			return true
		})
	}
	collect(stop)
	for _, f := range reach {
		if strings.HasSuffix(f.Pkg.PkgPath, isisSrv) {
			collect(f)
		}
	}
	c.Check(len(cons) >= 2, "restart-recreates-consumed", "things the stop path consumes", stop.Decl.Pos(), fmt.Sprintf("found %d (expected the done channel and the hello ticker)", len(cons)))
	g := p.CFG(start)
	for _, cn := range cons {
		fv := cn.field
		assigns := func(n ast.Node) bool {
			as, ok := n.(*ast.AssignStmt)
			if !ok {
				return false
			}
			for i, l := range as.Lhs {
				if core.FieldOf(start.Pkg, l) == fv && i < len(as.Rhs) {
					if _, isCall := core.Unparen(as.Rhs[i]).(*ast.CallExpr); isCall {
						return true
					}
				}
			}
			return false
		}
		isGo := func(n ast.Node) bool { _, ok := n.(*ast.GoStmt); return ok }
		hits := core.PathAvoiding(g, assigns, isGo)
		c.Check(len(hits) == 0, "restart-recreates-consumed", fmt.Sprintf("%s re-creates netIfa.%s (%s) before it starts the routines", start.Name(), fv.Name(), cn.how), cn.pos,
			"the stop path uses up netIfa."+fv.Name()+" ("+cn.how+") but the start path starts the routines again without a fresh one: after the first link down/up the routines see the old closed channel / stopped ticker — no hello is ever sent again, and the next link down closes the closed channel and panics")
	}

	// (1b) what stop closes it closes only if start created it since: the close is dominated by `W != nil` for a witness
	// field W that start sets (to a non-nil value) in the very block that re-creates the channel and that stop resets
	// to nil — or close and creation sit under the same condition.  (A passive interface never runs that block: an
	// unconditional close hits the channel of the previous run, or a nil channel, and panics.)
	for _, cn := range cons {
		if !strings.HasPrefix(cn.how, "closed in "+stop.Name()) {
			continue
		}
		fv := cn.field
		// the creation in start and its enclosing block
		var createStmt ast.Stmt
		ast.Inspect(start.Decl.Body, func(n ast.Node) bool {
			as, ok := n.(*ast.AssignStmt)
			if ok && len(as.Lhs) == 1 && core.FieldOf(start.Pkg, as.Lhs[0]) == fv {
				createStmt = as
			}
			return true
		})
		var closeCall *ast.CallExpr
		ast.Inspect(stop.Decl.Body, func(n ast.Node) bool {
			if call, ok := n.(*ast.CallExpr); ok && call.Pos() == cn.pos {
				closeCall = call
			}
			return true
		})
		if createStmt == nil || closeCall == nil {
			continue
		}
		construct := fmt.Sprintf("%s closes netIfa.%s only if %s created it", stop.Name(), fv.Name(), start.Name())
		okGuard := core.SameSig(core.GuardSig(start, createStmt), core.GuardSig(stop, closeCall)) && len(core.GuardSig(start, createStmt)) > 0
		if !okGuard {
			// witnesses: fields assigned in the same block as the creation
			var blk *ast.BlockStmt
			for _, anc := range core.PathTo(start.Decl.Body, createStmt) {
				if b, ok := anc.(*ast.BlockStmt); ok {
					blk = b
				}
			}
			wit := map[*types.Var]bool{}
			if blk != nil {
				for _, st := range blk.List {
					if as, ok := st.(*ast.AssignStmt); ok && len(as.Lhs) == 1 && len(as.Rhs) == 1 {
						if w := core.FieldOf(start.Pkg, as.Lhs[0]); w != nil && w != fv && ownerName(w) == recvType {
							if id, isId := core.Unparen(as.Rhs[0]).(*ast.Ident); !isId || id.Name != "nil" {
								wit[w] = true
							}
						}
					}
				}
			}
			// … that stop resets to nil
			reset := map[*types.Var]bool{}
			ast.Inspect(stop.Decl.Body, func(n ast.Node) bool {
				if as, ok := n.(*ast.AssignStmt); ok && len(as.Lhs) == 1 && len(as.Rhs) == 1 {
					if id, isId := core.Unparen(as.Rhs[0]).(*ast.Ident); isId && id.Name == "nil" {
						if w := core.FieldOf(stop.Pkg, as.Lhs[0]); w != nil && wit[w] {
							reset[w] = true
						}
					}
				}
				return true
			})
			for _, ft := range core.FactsAt(stop, closeCall) {
				be, ok := core.Unparen(ft.Expr).(*ast.BinaryExpr)
				if !ok {
					continue
				}
				x, y := be.X, be.Y
				if id, ok := core.Unparen(x).(*ast.Ident); ok && id.Name == "nil" {
					x, y = y, x
				}
				if id, ok := core.Unparen(y).(*ast.Ident); !ok || id.Name != "nil" {
					continue
				}
				if w := core.FieldOf(stop.Pkg, x); w != nil && reset[w] && ((be.Op == token.NEQ && ft.Truth) || (be.Op == token.EQL && !ft.Truth)) {
					okGuard = true
				}
			}
		}
		c.Check(okGuard, "restart-recreates-consumed", construct, closeCall.Pos(),
			"the close is not tied to the creation: it is neither under the condition the channel is created under nor behind a test of a field that the creating block sets and stop resets — on an interface for which start does not create the channel (passive) the second link-down closes the already closed channel and the server panics")
	}

	// (2) running flag
	var flag *types.Var
	ast.Inspect(start.Decl.Body, func(n ast.Node) bool {
		ifs, ok := n.(*ast.IfStmt)
		if !ok {
			return true
		}
		if fv := core.FieldOf(start.Pkg, ifs.Cond); fv != nil && ownerName(fv) == recvType && core.Terminates(start.Pkg, ifs.Body.List) {
			flag = fv
		}
		return true
	})
	if flag == nil {
		c.Undecided("stop-clears-running-flag", start.Name()+" running flag", start.Decl.Pos(), "no `if <flag> { return … }` guard at the top of _start found")
	} else {
		clears := func(n ast.Node) bool {
			as, ok := n.(*ast.AssignStmt)
			if !ok || len(as.Lhs) != 1 || core.FieldOf(stop.Pkg, as.Lhs[0]) != flag {
				return false
			}
			v := core.ConstOf(stop.Pkg, as.Rhs[0])
			return v != nil && v.ExactString() == "false"
		}
		rets, implicit := core.ExitsWithout(p.CFG(stop), clears)
		c.Check(len(rets) == 0 && !implicit, "stop-clears-running-flag", fmt.Sprintf("%s clears netIfa.%s on every path", stop.Name(), flag.Name()), stop.Decl.Pos(),
			"_start refuses to run while netIfa."+flag.Name()+" is set, and _stop can return without clearing it: after the first link down the interface can never be started again (no hellos, no adjacencies)")
	}

	// (3) conditional resources
	ast.Inspect(start.Decl.Body, func(n ast.Node) bool {
		as, ok := n.(*ast.AssignStmt)
		if !ok || len(as.Lhs) != 1 {
			return true
		}
		fv := core.FieldOf(start.Pkg, as.Lhs[0])
		if fv == nil || ownerName(fv) != recvType {
			return true
		}
		if _, isIface := fv.Type().Underlying().(*types.Interface); !isIface {
			if _, isPtr := fv.Type().Underlying().(*types.Pointer); !isPtr {
				return true
			}
		}
		cond := false
		for _, ft := range core.CtlFactsAt(start, as) {
			if ft.Enclosing {
				cond = true
			}
		}
		if !cond {
			return true
		}
		// every method call on the field in stop is behind a nil test (or the same condition)
		ord := 0
		ast.Inspect(stop.Decl.Body, func(m ast.Node) bool {
			call, isCall := m.(*ast.CallExpr)
			if !isCall {
				return true
			}
			se, isSel := call.Fun.(*ast.SelectorExpr)
			if !isSel || core.FieldOf(stop.Pkg, se.X) != fv {
				return true
			}
			ord++
			guarded := false
			for _, ft := range core.FactsAt(stop, call) {
				if x, isNil := core.IsNilCheck(stop.Pkg, ft.Expr); isNil && !ft.Truth && core.FieldOf(stop.Pkg, x) == fv {
					guarded = true
				}
			}
			c.Check(guarded, "conditional-resource-used-conditionally", fmt.Sprintf("%s use #%d of netIfa.%s (%s)", stop.Name(), ord, fv.Name(), se.Sel.Name), call.Pos(),
				"_start creates netIfa."+fv.Name()+" only for some interfaces (passive ones have none) but _stop calls a method on it unconditionally: a link down on such an interface dereferences nil and takes the whole daemon down")
			return true
		})
		return true
	})

	// (4) lock rules over the IS-IS and device packages
	lockRules(c, c33Scope, 10)
	// only what a link event can reach: DeviceUpdate and the device monitor (interface removal by configuration is not
	// a link state change and holds other locks)
	entries := []*core.Fn{upd}
	for _, k := range []string{"protocols/device.(*osAdapterLinux).processLinkUpdate", "protocols/device.(*osAdapterLinux).processAddrUpdate", "protocols/device.(*Server).notify"} {
		if f := p.Func(k); f != nil {
			entries = append(entries, f)
		}
	}
	fromLink := map[*core.Fn]bool{}
	for _, f := range p.ReachableFns(entries...) {
		fromLink[f] = true
	}
	waitUnderLock(c, func(f *core.Fn) bool { return c33Scope(f) && fromLink[f] })
}

func ownerName(fv *types.Var) string {
	if fv.Pkg() == nil {
		return ""
	}
	sc := fv.Pkg().Scope()
	for _, n := range sc.Names() {
		if tn, ok := sc.Lookup(n).(*types.TypeName); ok {
			if st, isSt := tn.Type().Underlying().(*types.Struct); isSt {
				for i := 0; i < st.NumFields(); i++ {
					if st.Field(i) == fv {
						return tn.Name()
					}
				}
			}
		}
	}
	return ""
}

// waitUnderLock: X.wg.Wait() with lock L held (locally or by every caller is not needed: may-held suffices for a
// deadlock recipe), where a goroutine that calls X.wg.Done() (started by a `go` statement on a method of the same
// type) can take L.
func waitUnderLock(c *core.Ctx, scope func(*core.Fn) bool) {
	p := c.P
	lp := core.BuildLockProg(p, scope)
	// may-held at entry (class level)
	heldIn := map[*core.Fn]map[string]bool{}
	for changed, iter := true, 0; changed && iter < 20; iter++ {
		changed = false
		for _, f := range lp.Fns {
			for _, cs := range lp.CallSites(f) {
				held := map[string]bool{}
				if ls := lp.Sets[f]; ls != nil {
					for h := range ls.MayAt(cs.Call) {
						if hc := lp.KeyClass[f][h]; hc != nil {
							held[core.ClassKey2(hc)] = true
						}
					}
				}
				for k := range heldIn[f] {
					held[k] = true
				}
				for _, g := range cs.Callees {
					for k := range held {
						if heldIn[g] == nil {
							heldIn[g] = map[string]bool{}
						}
						if !heldIn[g][k] {
							heldIn[g][k] = true
							changed = true
						}
					}
				}
			}
		}
	}
	n := 0
	for _, f := range lp.Fns {
		core.InspectNoLit(f.Decl.Body, func(nd ast.Node) bool {
			call, ok := nd.(*ast.CallExpr)
			if !ok {
				return true
			}
			se, isSel := call.Fun.(*ast.SelectorExpr)
			if !isSel || se.Sel.Name != "Wait" {
				return true
			}
			wg := core.FieldOf(f.Pkg, se.X)
			if wg == nil || !strings.HasSuffix(wg.Type().String(), "sync.WaitGroup") {
				return true
			}
			held := map[string]bool{}
			if ls := lp.Sets[f]; ls != nil {
				for h := range ls.MayAt(call) {
					if hc := lp.KeyClass[f][h]; hc != nil {
						held[core.ClassKey2(hc)] = true
					}
				}
			}
			for k := range heldIn[f] {
				held[k] = true
			}
			if len(held) == 0 {
				return true
			}
			// goroutines counted by this WaitGroup: functions that call Done on the same field
			var workers []*core.Fn
			for _, g := range p.AllFuncs() {
				if g.Decl.Body == nil {
					continue
				}
				ast.Inspect(g.Decl.Body, func(m ast.Node) bool {
					if dc, isC := m.(*ast.CallExpr); isC {
						if ds, isS := dc.Fun.(*ast.SelectorExpr); isS && ds.Sel.Name == "Done" && core.FieldOf(g.Pkg, ds.X) == wg {
							workers = append(workers, g)
						}
					}
					return true
				})
			}
			reach := p.ReachableFns(workers...)
			for class := range held {
				n++
				construct := fmt.Sprintf("%s waits for %s with %s held", f.Name(), wg.Name(), short(class))
				var needs *core.Fn
				for _, g := range reach {
					if lp.Direct[g] != nil && lp.Direct[g][class] {
						needs = g
						break
					}
				}
				if needs == nil {
					c.Hold("no-wait-under-needed-lock", construct, call.Pos(), "the goroutines counted by the WaitGroup never take this lock")
				} else {
					c.Fail("no-wait-under-needed-lock", construct, call.Pos(),
						"the wait returns only when the counted goroutines have finished, and one of them takes "+short(class)+" in "+needs.Name()+": if it is about to, it waits for the lock the waiter holds — both block forever (the interface and the device monitor are wedged)")
				}
			}
			return true
		})
	}
	c.Check(n >= 1, "no-wait-under-needed-lock", "WaitGroup waits under a lock found", token.NoPos, "none found: the rule matches nothing (netIfa._stop under netIfa.mu was the confirmed instance)")
}
