package props

import (
	"fmt"
	"go/ast"
	"go/token"
	"go/types"
	"sort"

	"verif/engine/core"
)

// linkStateHandles: two fields of the IS-IS interface object depend on the link history:
//
//	ethernetInterface  set by start (link up, active interface), reset to nil by stop (link down); nil for passive interfaces
//	devStatus          nil until the first device update, never reset afterwards
//
// The server's periodic work (LSP origination, flooding, PSNP/CSNP timers) runs for EVERY configured interface, whatever
// its link state.  Rule: a use of one of these fields that dereferences it (method call on it) is
//
//	(a) guarded: a dominating test that the field (or the local it was copied to) is not nil, or
//	(b) inside a routine that only runs between start and stop – a function reachable only from the goroutines start
//	    launches (stop joins them before it resets the handle) or from start/stop themselves, or
//	(c) guarded at every call site of the enclosing function (one level), or
//	(d) in the exemption table below, one reason each (objects that exist only once the field is set).
func linkStateHandles(c *core.Ctx) {
	p := c.P
	const rule = "link-state-handle-guarded"
	c.Floor(rule, 6)
	eth := p.Field(isisSrv, "netIfa", "ethernetInterface")
	dev := p.Field(isisSrv, "netIfa", "devStatus")
	start := c.MustFunc(isisSrv + ".(*netIfa)._start")
	stop := c.MustFunc(isisSrv + ".(*netIfa)._stop")
	upd := c.MustFunc(isisSrv + ".(*netIfa).DeviceUpdate")
	if eth == nil || dev == nil || start == nil || stop == nil || upd == nil {
		c.Undecided(rule, "netIfa.{ethernetInterface,devStatus}", token.NoPos, "anchors not found")
		return
	}
	// devStatus is never reset: every assignment stores the handler's parameter
	for _, f := range p.FuncsIn(isisSrv) {
		if f.Decl.Body == nil || isTestFn(p, f) {
			continue
		}
		ast.Inspect(f.Decl.Body, func(n ast.Node) bool {
			as, ok := n.(*ast.AssignStmt)
			if !ok {
				return true
			}
			for i, l := range as.Lhs {
				if core.FieldOf(f.Pkg, l) != dev || i >= len(as.Rhs) {
					continue
				}
				ok := f == upd && isParamExpr(f, as.Rhs[i])
				c.Check(ok, rule, f.Name()+" stores the reported device status", as.Pos(), "devStatus is assigned something other than the device reported to DeviceUpdate (the exemptions of this rule rely on it never being reset)")
			}
			return true
		})
	}
	// (b) routines that live between start and stop
	callers := map[*core.Fn][]*core.Fn{}
	for _, f := range p.FuncsIn(isisSrv) {
		if f.Decl.Body == nil || isTestFn(p, f) {
			continue
		}
		for _, call := range core.CallsAll(f.Pkg, f.Decl.Body, func(*types.Func) bool { return true }) {
			if g := p.FnOf(core.Callee(f.Pkg, call)); g != nil {
				callers[g] = append(callers[g], f)
			}
		}
	}
	started := map[*core.Fn]bool{start: true, stop: true}
	changed := true
	for changed {
		changed = false
		for g, cs := range callers {
			if started[g] || len(cs) == 0 {
				continue
			}
			all := true
			for _, f := range cs {
				if !started[f] {
					all = false
				}
			}
			if all {
				started[g] = true
				changed = true
			}
		}
	}
	// (d) exemptions
	exempt := map[string]string{
		isisSrv + ".(*neighbor).threeWayHandshakeOK|devStatus":              "a neighbor object is created by the hello receiver, which only runs on an interface that received a device update",
		isisSrv + ".(*neighbor).extendedISReachabilityNeighbor|devStatus":   "a neighbor object is created by the hello receiver, which only runs on an interface that received a device update",
		isisSrv + ".(*neighborManager).validateNeighborAddresses|devStatus": "called from hello processing on the receiver routine",
		isisSrv + ".(*netIfa).ipv4Addrs|devStatus":                          "callers: hello construction (sender routine) and the reachability TLV, which tests devStatus before the call (rule (c) cannot see through the range loop)",
	}
	type use struct {
		f     *core.Fn
		call  *ast.CallExpr
		sel   *ast.SelectorExpr // x.F
		field *types.Var
	}
	var uses []use
	for _, f := range p.FuncsIn(isisSrv) {
		if f.Decl.Body == nil || isTestFn(p, f) {
			continue
		}
		ast.Inspect(f.Decl.Body, func(n ast.Node) bool {
			call, ok := n.(*ast.CallExpr)
			if !ok {
				return true
			}
			m, ok := call.Fun.(*ast.SelectorExpr)
			if !ok {
				return true
			}
			recv := core.Unparen(m.X)
			// through a local copy: eth := ifa.ethernetInterface; eth.GetMTU()
			if id, isId := recv.(*ast.Ident); isId {
				if o := f.Pkg.TypesInfo.ObjectOf(id); o != nil {
					for _, d := range core.DefsOf(f, o) {
						if fs, ok := core.Unparen(d).(*ast.SelectorExpr); ok && (core.FieldOf(f.Pkg, fs) == eth || core.FieldOf(f.Pkg, fs) == dev) {
							uses = append(uses, use{f, call, fs, core.FieldOf(f.Pkg, fs)})
						}
					}
				}
				return true
			}
			fs, ok := recv.(*ast.SelectorExpr)
			if !ok {
				return true
			}
			if fv := core.FieldOf(f.Pkg, fs); fv == eth || fv == dev {
				uses = append(uses, use{f, call, fs, fv})
			}
			return true
		})
	}
	sort.Slice(uses, func(i, j int) bool { return uses[i].call.Pos() < uses[j].call.Pos() })
	notNil := func(f *core.Fn, at ast.Node, e ast.Expr) bool {
		for _, ft := range core.FactsAt(f, at) {
			be, ok := core.Unparen(ft.Expr).(*ast.BinaryExpr)
			if !ok {
				continue
			}
			x, y := be.X, be.Y
			if id, ok := core.Unparen(x).(*ast.Ident); ok && id.Name == "nil" {
				x, y = y, x
			}
			if id, ok := core.Unparen(y).(*ast.Ident); !ok || id.Name != "nil" {
				continue
			}
			if !core.SameExpr(f.Pkg, core.Unparen(x), core.Unparen(e)) {
				continue
			}
			if (be.Op == token.NEQ && ft.Truth) || (be.Op == token.EQL && !ft.Truth) {
				return true
			}
		}
		return false
	}
	for _, u := range uses {
		f := u.f
		c.Analysed(f)
		construct := f.Name() + " uses " + core.ExprString(u.sel) + " in " + core.ExprString(u.call.Fun)
		// (a)
		guarded := notNil(f, u.call, u.sel)
		if !guarded {
			if id, ok := core.Unparen(u.call.Fun.(*ast.SelectorExpr).X).(*ast.Ident); ok {
				guarded = notNil(f, u.call, id)
			}
		}
		if guarded {
			c.Hold(rule, construct, u.call.Pos(), "dominated by a nil test")
			continue
		}
		// (b)
		if started[f] {
			c.Hold(rule, construct, u.call.Pos(), "runs only between start and stop (reachable only from the routines start launches)")
			continue
		}
		// (c)
		if cs := callSitesOf(p, f); len(cs) > 0 && recvObj(f) != nil {
			all := true
			for _, s := range cs {
				ms, ok := s.call.Fun.(*ast.SelectorExpr)
				if !ok {
					all = false
					break
				}
				// the caller must have tested <receiver expr>.F
				probe := &ast.SelectorExpr{X: ms.X, Sel: u.sel.Sel}
				if !notNilSel(s.f, s.call, probe, u.field) && !started[s.f] {
					all = false
				}
			}
			if all && core.ObjOf(f.Pkg, u.sel.X) == recvObj(f) {
				c.Hold(rule, construct, u.call.Pos(), "every call site tests the handle first")
				continue
			}
		}
		// (d)
		if why, ok := exempt[f.Name()+"|"+u.field.Name()]; ok {
			c.Hold(rule, construct, u.call.Pos(), "exempt: "+why)
			continue
		}
		what := "an interface whose link is down (or a passive one) has no ethernet handle"
		if u.field == dev {
			what = "an interface that has not yet received a device update has no device status"
		}
		c.Fail(rule, construct, u.call.Pos(), "the handle is used without a nil test in code that runs whatever the link state is: "+what+", so the periodic LSDB work panics and takes the IS-IS server down")
	}
}

type callSite struct {
	f    *core.Fn
	call *ast.CallExpr
}

func callSitesOf(p *core.Prog, g *core.Fn) []callSite {
	var out []callSite
	for _, f := range p.AllFuncs() {
		if f.Decl.Body == nil || isTestFn(p, f) {
			continue
		}
		for _, call := range core.CallsAll(f.Pkg, f.Decl.Body, func(o *types.Func) bool { return o == g.Obj }) {
			out = append(out, callSite{f, call})
		}
	}
	return out
}

// notNilSel: facts at `at` establish X.F != nil for the selector shape probe (compared by receiver expression and field).
func notNilSel(f *core.Fn, at ast.Node, probe *ast.SelectorExpr, field *types.Var) bool {
	for _, ft := range core.FactsAt(f, at) {
		be, ok := core.Unparen(ft.Expr).(*ast.BinaryExpr)
		if !ok {
			continue
		}
		x, y := be.X, be.Y
		if id, ok := core.Unparen(x).(*ast.Ident); ok && id.Name == "nil" {
			x, y = y, x
		}
		if id, ok := core.Unparen(y).(*ast.Ident); !ok || id.Name != "nil" {
			continue
		}
		xs, ok := core.Unparen(x).(*ast.SelectorExpr)
		if !ok || core.FieldOf(f.Pkg, xs) != field || !core.SameExpr(f.Pkg, core.Unparen(xs.X), core.Unparen(probe.X)) {
			continue
		}
		if (be.Op == token.NEQ && ft.Truth) || (be.Op == token.EQL && !ft.Truth) {
			return true
		}
	}
	return false
}

func isTestFn(p *core.Prog, f *core.Fn) bool {
	pos := p.Pos(f.Decl.Pos())
	for i := 0; i+8 <= len(pos); i++ {
		if pos[i:i+8] == "_test.go" {
			return true
		}
	}
	return false
}

// closedHandleIsForgotten: the interface's ethernet handle is the token for "a run is in progress" (_stop closes the
// done channel and the handle iff the field is set).  Whoever closes the handle must clear the field before the
// function returns — otherwise the next link-down event finds a stale handle, closes the previous run's done channel a
// second time (panic) and closes the handle twice.  Rule: in every netIfa method, each path from a Close() on the handle
// field to a return passes an assignment of nil to that field (or a call of a method that makes it so on all its exits).
func closedHandleIsForgotten(c *core.Ctx) {
	const rule = "closed-handle-is-forgotten"
	p := c.P
	hF := p.Field(isisSrv, "netIfa", "ethernetInterface")
	if hF == nil {
		c.Check(false, rule, "netIfa.ethernetInterface", 0, "field not found")
		return
	}
	clears := func(f *core.Fn) func(ast.Node) bool {
		return func(n ast.Node) bool {
			as, ok := n.(*ast.AssignStmt)
			if !ok || len(as.Lhs) != len(as.Rhs) {
				return false
			}
			for i, l := range as.Lhs {
				if core.FieldOf(f.Pkg, l) == hF && core.IsNilIdent(f.Pkg, as.Rhs[i]) {
					return true
				}
			}
			return false
		}
	}
	// methods that clear the field on every exit
	clearing := map[*types.Func]bool{}
	for _, f := range p.MethodsOf(isisSrv, "netIfa") {
		if f.Decl.Body == nil {
			continue
		}
		rets, implicit := core.ExitsWithout(p.CFG(f), clears(f))
		if len(rets) == 0 && !implicit {
			clearing[f.Obj] = true
		}
	}
	n := 0
	for _, f := range p.MethodsOf(isisSrv, "netIfa") {
		if f.Decl.Body == nil {
			continue
		}
		isClose := func(nd ast.Node) bool {
			return core.NodeHas(nd, func(x ast.Node) bool {
				call, ok := x.(*ast.CallExpr)
				if !ok {
					return false
				}
				se, ok := call.Fun.(*ast.SelectorExpr)
				return ok && se.Sel.Name == "Close" && core.FieldOf(f.Pkg, se.X) == hF
			})
		}
		has := false
		ast.Inspect(f.Decl.Body, func(nd ast.Node) bool {
			if st, ok := nd.(ast.Stmt); ok && isClose(st) {
				has = true
			}
			return true
		})
		if !has {
			continue
		}
		n++
		c.Analysed(f)
		cl := clears(f)
		gate := func(nd ast.Node) bool {
			if cl(nd) {
				return true
			}
			return core.NodeHas(nd, func(x ast.Node) bool {
				call, ok := x.(*ast.CallExpr)
				return ok && clearing[core.Callee(f.Pkg, call)]
			})
		}
		isRet := func(nd ast.Node) bool { _, ok := nd.(*ast.ReturnStmt); return ok }
		hits := core.PathAvoidingFrom(p.CFG(f), isClose, gate, isRet)
		// falling off the end of the function behind the Close without clearing
		endsClean := true
		if len(hits) == 0 {
			rets, implicit := core.ExitsWithout(p.CFG(f), gate)
			_ = rets
			if implicit {
				endsClean = false
			}
		}
		pos := f.Decl.Pos()
		if len(hits) > 0 {
			pos = hits[0].Pos()
		}
		c.Check(len(hits) == 0 && endsClean, rule, f.Name()+" clears the handle field after closing the handle", pos,
			"a path closes the ethernet handle and returns with the closed handle still in netIfa.ethernetInterface: the next link-down takes it for a run in progress, closes the previous run's done channel again (panic: close of closed channel) and closes the handle a second time")
	}
	c.Check(n >= 1, rule, "methods closing the handle found", 0, "no netIfa method closes the ethernet handle")
}

// levelHandlesGuarded: an interface may be configured for level 1 only, level 2 only or both; the per-level neighbor
// manager and the per-level configuration are nil for a level that is not configured.  Every method call on
// netIfa.neighborManagerL1/L2 and every field access through InterfaceConfig.Level1/Level2 needs a fact that the
// pointer is not nil (or sits in a function listed with the reason why it is reached only for that level).  A link
// event on a level-1-only interface otherwise crashes LSP origination, the CSNP tick or the SRM flagging.
func levelHandlesGuarded(c *core.Ctx) {
	const rule = "level-handle-guarded"
	p := c.P
	exempt := map[string]string{
		isisSrv + ".(*neighbor).extendedISReachabilityNeighbor": "called for neighbors of the level-2 manager only (getNeighborsUp of neighborManagerL2), which exists iff cfg.Level2 does (newNetIfa)",
	}
	fields := map[*types.Var]bool{}
	for _, spec := range [][3]string{{isisSrv, "netIfa", "neighborManagerL1"}, {isisSrv, "netIfa", "neighborManagerL2"}, {isisSrv, "InterfaceConfig", "Level1"}, {isisSrv, "InterfaceConfig", "Level2"}} {
		if fv := p.Field(spec[0], spec[1], spec[2]); fv != nil {
			fields[fv] = true
		}
	}
	c.Check(len(fields) == 4, rule, "level fields", 0, "netIfa.neighborManagerL1/L2 or InterfaceConfig.Level1/Level2 not found")
	n := 0
	for _, f := range p.FuncsIn(isisSrv) {
		if f.Decl.Body == nil || isTestFn(p, f) {
			continue
		}
		ord := 0
		ast.Inspect(f.Decl.Body, func(nd ast.Node) bool {
			se, ok := nd.(*ast.SelectorExpr)
			if !ok {
				return true
			}
			inner, ok := core.Unparen(se.X).(*ast.SelectorExpr)
			if !ok || !fields[core.FieldOf(f.Pkg, inner)] {
				return true
			}
			ord++
			n++
			c.Analysed(f)
			construct := fmt.Sprintf("%s use #%d of %s", f.Name(), ord, core.ExprString(inner))
			if why, ok := exempt[f.Name()]; ok {
				c.Hold(rule, construct, se.Pos(), "exempt: "+why)
				return true
			}
			okNN := core.KnownNonNil(f.Pkg, core.FactsAt(f, se), inner)
			if !okNN {
				// several early returns that only together exclude nil (holdingTimer): decide the path condition of the
				// enclosing statement propositionally over the atoms `x == nil`
				if pc, err := core.ExtractPathConds(f); err == nil {
					// the innermost statement containing the use
					var inSt ast.Stmt
					for st := range pc.Cond {
						if st.Pos() <= se.Pos() && se.End() <= st.End() && (inSt == nil || st.End()-st.Pos() < inSt.End()-inSt.Pos()) {
							if ifs, isIf := st.(*ast.IfStmt); isIf && !(ifs.Cond.Pos() <= se.Pos() && se.End() <= ifs.Cond.End()) {
								continue // inside the body or else branch: a narrower statement has the condition
							}
							inSt = st
						}
					}
					for st, fm := range pc.Cond {
						if st == inSt {
							want := core.ExprString(inner)
							classify := func(e ast.Expr) (string, bool, bool) {
								be, ok := core.Unparen(e).(*ast.BinaryExpr)
								if !ok || (be.Op != token.EQL && be.Op != token.NEQ) || !core.IsNilIdent(f.Pkg, be.Y) {
									return "", false, false
								}
								return core.ExprString(be.X), be.Op == token.NEQ, true
							}
							// the implication is only meaningful when the path condition talks about this pointer at all
							mentions := false
							var scan func(x *core.Formula)
							scan = func(x *core.Formula) {
								if x == nil {
									return
								}
								if x.Atom != nil {
									ast.Inspect(x.Atom, func(m ast.Node) bool {
										if be, ok := m.(*ast.BinaryExpr); ok {
											if nm, _, ok := classify(be); ok && nm == want {
												mentions = true
											}
										}
										return true
									})
								}
								for _, sub := range x.Sub {
									scan(sub)
								}
							}
							scan(fm)
							if holds, _ := formulaImplies(f, fm, classify, func(v map[string]bool) bool { return !v[want] }); holds && mentions {
								okNN = true
							}
						}
					}
				}
			}
			c.Check(okNN, rule, construct, se.Pos(),
				fmt.Sprintf("`%s` is used without a nil test, and it is nil on an interface that is not configured for that level: LSP origination, the CSNP tick or the SRM flagging crash on a link event for a level-1-only interface", core.ExprString(inner)))
			return true
		})
	}
	c.Check(n >= 8, rule, "level handle uses found", 0, fmt.Sprintf("found %d, floor 8", n))
}
