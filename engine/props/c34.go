package props

import (
	"fmt"
	"go/ast"
	"go/token"
	"go/types"
	"sort"
	"strings"

	"verif/engine/core"
)

func init() {
	Register(&Prop{
		Meta: core.Meta{
			ID: "C34", Title: "API route conversion preserves what the API carries", Level: "other",
			Technique:   "writer/reader field agreement (R-PAIR) between each ToProto function and its FromProto counterpart over the generated API message types; read-before-write check on the freshly created destination object; exhaustiveness of the hidden-reason mapping; no-store-after-intern rule for the attribute cache",
			DesignRef:   "DESIGN.md §4 C34",
			Decided:     "(0) in the conversion functions reachable from the paired ToProto/FromProto entry points: no copy() into a destination made with length 0, and no scalar declared outside a conversion loop is read in an iteration before that iteration assigned it (element i is converted from element i alone); (1) for every pair (ToProto, FromProto) of route, path, BGP path, static path, prefix, IP, AS path segment, large community and unknown attribute: every data field of the API message is written by the exporter (in the literal or by an assignment) and read by the importer, except the two fields the importer is not meant to restore (listed with reasons); (2) no condition in an exporter reads a field of the destination object it has just created (such a guard is constant and silently drops the attribute); (3) Path.ToProto maps the hidden reason on every path to its return, and every hidden reason other than 'none' has a case that assigns a non-'none' API value; (4) the importer does not store into the interned (shared, cached) attribute block after it has been interned.",
			NotDecided:  "that the values written are the right ones for each field (value equality of the round trip); deep copies vs. aliasing of slices.",
			TrustedBase: stdTrusted,
		},
		Run: runC34,
		Controls: []Control{
			{Name: "imported-address-unmapped", File: "net/ip.go", Old: "func IPFromProtoIP(addr *api.IP) IP {\n\treturn IP{", New: "func (ip IP) unmapped() IP {\n\tif !ip.isLegacy && ip.higher == 0 && ip.lower>>32 == 0xffff {\n\t\treturn IPv4(uint32(ip.lower))\n\t}\n\treturn ip\n}\n\nfunc IPFromProtoIP(addr *api.IP) IP {\n\treturn iPFromProtoIP(addr).unmapped()\n}\n\nfunc iPFromProtoIP(addr *api.IP) IP {\n\treturn IP{", Expect: "import-returns-the-value-as-built"},
			{Name: "conversion-skips-repeated-paths", File: "route/route.go", Old: "\t\ta.Paths[i] = r.paths[i].ToProto()\n", New: "\t\tif i > 0 && r.paths[i].Compare(r.paths[i-1]) {\n\t\t\tcontinue\n\t\t}\n\t\ta.Paths[i] = r.paths[i].ToProto()\n", Expect: "conversion-covers-every-element"},
			{Name: "cluster-list-copied-into-empty-slice", File: "route/bgp_path.go", Old: "\t\ta.ClusterList = make([]uint32, len(*b.ClusterList))\n", New: "\t\ta.ClusterList = make([]uint32, 0, len(*b.ClusterList))\n", Expect: "copy-has-room"},
			{Name: "segment-type-carried-across-segments", File: "protocols/bgp/types/as_path.go", Old: "\tfor i := range segments {\n\t\ts := ASPathSegment{\n\t\t\tType: ASSet,\n\t\t\tASNs: make([]uint32, len(segments[i].Asns)),\n\t\t}\n\n\t\tif segments[i].AsSequence {\n\t\t\ts.Type = ASSequence\n\t\t}\n", New: "\tsegType := uint8(ASSequence)\n\tfor i := range segments {\n\t\tif !segments[i].AsSequence {\n\t\t\tsegType = ASSet\n\t\t}\n\t\ts := ASPathSegment{\n\t\t\tType: segType,\n\t\t\tASNs: make([]uint32, len(segments[i].Asns)),\n\t\t}\n", Expect: "element-conversion-is-stateless"},
			{Name: "cluster-list-guard-on-destination", File: "route/bgp_path.go", Old: "\tif b.ClusterList != nil {\n\t\ta.ClusterList = make([]uint32, len(*b.ClusterList))", New: "\tif a.ClusterList != nil {\n\t\ta.ClusterList = make([]uint32, len(*b.ClusterList))", Expect: "exporter-guards-on-source"},
			{Name: "importer-drops-originator-id", File: "route/bgp_path.go", Old: "\t\t\tOriginatorID:   pb.OriginatorId,\n", New: "", Expect: "api-field-agreement"},
			{Name: "exporter-drops-otc", File: "route/bgp_path.go", Old: "\t\ta.OnlyToCustomer = b.BGPPathA.OnlyToCustomer\n", New: "", Expect: "api-field-agreement"},
			{Name: "static-path-returns-before-hidden-mapping", File: "route/path.go", Old: "\tcase StaticPathType:\n\t\ta.Type = api.Path_Static\n", New: "\tcase StaticPathType:\n\t\ta.Type = api.Path_Static\n\t\treturn a\n", Expect: "hidden-never-visible"},
			{Name: "otc-stored-after-intern", File: "route/bgp_path.go", Old: "\tif dedup {\n\t\tp = p.Dedup()\n\t}\n", New: "\tif dedup {\n\t\tp = p.Dedup()\n\t}\n\tp.BGPPathA.OnlyToCustomer = pb.OnlyToCustomer\n", Expect: "no-store-after-intern"},
		},
	})
}

type protoPair struct {
	to, from string // function keys
	msgPkg   string // package of the API message
	msg      string
	// fields the importer does not restore, with the reason
	notImported map[string]string
	// API fields without a counterpart in the Go type
	noCounterpart map[string]string
}

var c34Pairs = []protoPair{
	{"route.(*Route).ToProto", "route.RouteFromProtoRoute", "route/api", "Route", nil, nil},
	{"route.(*Path).ToProto", "route.RouteFromProtoRoute", "route/api", "Path", map[string]string{
		"TimeLearned":  "the importer creates a new local path; when it was learned upstream is not part of what the property lists as preserved",
		"HiddenReason": "hidden paths are exported for display; the property only requires that they are never exported as visible (rule hidden-never-visible)",
	}, map[string]string{"GrpPath": "the schema reserves a GRP path; route.Path has no GRP path type, nothing to convert"}},
	{"route.(*BGPPath).ToProto", "route.BGPPathFromProtoBGPPath", "route/api", "BGPPath", nil, nil},
	{"route.(*StaticPath).ToProto", "route.StaticPathFromProtoStaticPath", "route/api", "StaticPath", nil, nil},
	{"protocols/bgp/types.(*UnknownPathAttribute).ToProto", "protocols/bgp/types.UnknownPathAttributeFromProtoUnknownPathAttribute", "route/api", "UnknownPathAttribute", nil, nil},
	{"protocols/bgp/types.(*LargeCommunity).ToProto", "protocols/bgp/types.LargeCommunityFromProtoCommunity", "route/api", "LargeCommunity", nil, nil},
	{"protocols/bgp/types.(ASPath).ToProto", "protocols/bgp/types.ASPathFromProtoASPath", "route/api", "ASPathSegment", nil, nil},
	{"net.(Prefix).ToProto", "net.NewPrefixFromProtoPrefix", "net/api", "Prefix", nil, nil},
	{"net.(IP).ToProto", "net.IPFromProtoIP", "net/api", "IP", nil, nil},
}

func runC34(c *core.Ctx) {
	conversionsArePure(c)
	p := c.P
	conversionLoops(c)
	for _, pr := range c34Pairs {
		to, from := c.MustFunc(pr.to), c.MustFunc(pr.from)
		nt := p.Named(pr.msgPkg, pr.msg)
		if to == nil || from == nil || nt == nil {
			if nt == nil {
				c.Undecided("api-field-agreement", pr.msg, token.NoPos, "API message type not found")
			}
			continue
		}
		c.Analysed(to, from)
		st := nt.Underlying().(*types.Struct)
		written := fieldsTouched(to, st, true)
		read := fieldsTouched(from, st, false)
		var names []string
		for i := 0; i < st.NumFields(); i++ {
			f := st.Field(i)
			if !f.Exported() {
				continue // protobuf internals
			}
			names = append(names, f.Name())
		}
		sort.Strings(names)
		for _, n := range names {
			if why, ok := pr.noCounterpart[n]; ok {
				c.Hold("api-field-agreement", fmt.Sprintf("api.%s.%s has no counterpart", pr.msg, n), to.Decl.Pos(), why)
				continue
			}
			c.Check(written[n], "api-field-agreement", fmt.Sprintf("%s writes api.%s.%s", to.Name(), pr.msg, n), to.Decl.Pos(),
				"the API message has the field "+n+" but the exporter never fills it: the attribute is silently missing from every exported route")
			if why, ok := pr.notImported[n]; ok {
				c.Hold("api-field-agreement", fmt.Sprintf("%s reads api.%s.%s", from.Name(), pr.msg, n), from.Decl.Pos(), "not imported by design: "+why)
				continue
			}
			c.Check(read[n], "api-field-agreement", fmt.Sprintf("%s reads api.%s.%s", from.Name(), pr.msg, n), from.Decl.Pos(),
				"the API message has the field "+n+" and the exporter fills it, but the importer never reads it: the attribute is lost on the way back")
		}
		// (2) exporter guards read the source, not the fresh destination
		exporterGuards(c, to, nt)
	}

	// (3) hidden reason
	if f := c.MustFunc("route.(*Path).ToProto"); f != nil {
		hidden := p.Field("route", "Path", "HiddenReason")
		var sw *ast.SwitchStmt
		ast.Inspect(f.Decl.Body, func(n ast.Node) bool {
			if s, ok := n.(*ast.SwitchStmt); ok && s.Tag != nil && core.FieldOf(f.Pkg, s.Tag) == hidden {
				sw = s
			}
			return true
		})
		if sw == nil {
			c.Fail("hidden-never-visible", f.Name()+" maps the hidden reason", f.Decl.Pos(), "no switch on Path.HiddenReason found in the exporter")
		} else {
			this := sw
			rets, implicit := core.ExitsWithout(p.CFG(f), func(n ast.Node) bool { return n == ast.Node(this.Tag) || n == ast.Node(this) })
			c.Check(len(rets) == 0 && !implicit, "hidden-never-visible", f.Name()+" maps the hidden reason on every path", f.Decl.Pos(),
				"the exporter can return without having mapped the hidden reason: such a path is exported with the zero value, i.e. as visible")
			cased := map[string]bool{}
			hasDefault := false
			for _, cs := range sw.Body.List {
				cc := cs.(*ast.CaseClause)
				if cc.List == nil {
					// a default arm that assigns a non-none value covers the rest
					for _, st := range cc.Body {
						if as, ok := st.(*ast.AssignStmt); ok && len(as.Rhs) == 1 && !strings.HasSuffix(core.ExprString(as.Rhs[0]), "HiddenReasonNone") {
							hasDefault = true
						}
					}
					continue
				}
				nonNone := false
				for _, st := range cc.Body {
					if as, ok := st.(*ast.AssignStmt); ok && len(as.Rhs) == 1 && !strings.HasSuffix(core.ExprString(as.Rhs[0]), "HiddenReasonNone") {
						nonNone = true
					}
				}
				for _, e := range cc.List {
					if co := core.ConstObjOf(f.Pkg, e); co != nil && (nonNone || co.Name() == "HiddenReasonNone") {
						cased[co.Name()] = true
					}
				}
			}
			// all constants of the package named HiddenReason*
			sc := f.Pkg.Types.Scope()
			n := 0
			for _, name := range sc.Names() {
				co, ok := sc.Lookup(name).(*types.Const)
				if !ok || !strings.HasPrefix(name, "HiddenReason") {
					continue
				}
				n++
				c.Check(cased[name] || hasDefault, "hidden-never-visible", f.Name()+" has an API value for "+name, sw.Pos(),
					"paths hidden for the reason "+name+" fall through the mapping and are exported with the zero value HiddenReasonNone: the API reports a hidden path as visible")
				_ = co
			}
			c.Check(n >= 7, "hidden-never-visible", "hidden reasons found", sw.Pos(), fmt.Sprintf("found %d HiddenReason constants, floor 7", n))
		}
	}

	// (4) no store into the interned attribute block after interning
	if f := c.MustFunc("route.BGPPathFromProtoBGPPath"); f != nil {
		pathA := p.Field("route", "BGPPath", "BGPPathA")
		var dedupPos token.Pos
		ast.Inspect(f.Decl.Body, func(n ast.Node) bool {
			if call, ok := n.(*ast.CallExpr); ok {
				if cal := core.Callee(f.Pkg, call); cal != nil && cal.Name() == "Dedup" && strings.HasSuffix(cal.Pkg().Path(), "/route") {
					if dedupPos == token.NoPos {
						dedupPos = call.Pos()
					}
				}
			}
			return true
		})
		if dedupPos == token.NoPos {
			c.Undecided("no-store-after-intern", f.Name()+" interns the attribute block", f.Decl.Pos(), "no Dedup() call found in the importer")
		} else {
			bad := token.NoPos
			ast.Inspect(f.Decl.Body, func(n ast.Node) bool {
				as, ok := n.(*ast.AssignStmt)
				if !ok || as.Pos() < dedupPos {
					return true
				}
				for _, l := range as.Lhs {
					if se, isSel := core.Unparen(l).(*ast.SelectorExpr); isSel {
						if core.FieldOf(f.Pkg, se.X) == pathA && pathA != nil {
							bad = as.Pos()
						}
					}
				}
				return true
			})
			c.Check(bad == token.NoPos, "no-store-after-intern", f.Name()+" does not modify the interned attribute block", f.Decl.Pos(),
				"a field of BGPPathA is assigned after Dedup(): the block is shared by every path with the same attributes, so importing one route rewrites the attribute of all the others (and of later imports that hit the cache)")
		}
	}
}

// fieldsTouched: names of the fields of struct st that f writes (composite literal keys, assignments) or reads.
func fieldsTouched(f *core.Fn, st *types.Struct, write bool) map[string]bool {
	isField := map[*types.Var]bool{}
	for i := 0; i < st.NumFields(); i++ {
		isField[st.Field(i)] = true
	}
	out := map[string]bool{}
	lhs := map[ast.Node]bool{}
	ast.Inspect(f.Decl.Body, func(n ast.Node) bool {
		switch x := n.(type) {
		case *ast.AssignStmt:
			for _, l := range x.Lhs {
				e := core.Unparen(l)
				for {
					if ix, ok := e.(*ast.IndexExpr); ok {
						e = core.Unparen(ix.X)
						continue
					}
					break
				}
				lhs[e] = true
			}
		case *ast.KeyValueExpr:
			if id, ok := x.Key.(*ast.Ident); ok {
				if v, isV := f.Pkg.TypesInfo.ObjectOf(id).(*types.Var); isV && isField[v] && write {
					out[v.Name()] = true
				}
			}
		}
		return true
	})
	ast.Inspect(f.Decl.Body, func(n ast.Node) bool {
		se, ok := n.(*ast.SelectorExpr)
		if !ok {
			return true
		}
		fv := core.FieldOf(f.Pkg, se)
		if fv == nil || !isField[fv] {
			return true
		}
		if write == lhs[se] {
			out[fv.Name()] = true
		}
		return true
	})
	return out
}

// exporterGuards: no condition in the exporter reads a field of the destination object created in it.
func exporterGuards(c *core.Ctx, f *core.Fn, msg *types.Named) {
	// destination objects: locals defined by a composite literal of the message type
	dest := map[types.Object]bool{}
	ast.Inspect(f.Decl.Body, func(n ast.Node) bool {
		as, ok := n.(*ast.AssignStmt)
		if !ok || len(as.Lhs) != 1 || len(as.Rhs) != 1 {
			return true
		}
		e := core.Unparen(as.Rhs[0])
		if ue, isU := e.(*ast.UnaryExpr); isU {
			e = core.Unparen(ue.X)
		}
		if cl, isCL := e.(*ast.CompositeLit); isCL {
			if t := f.Pkg.TypesInfo.TypeOf(cl); t != nil && types.Identical(t, msg) {
				dest[core.ObjOf(f.Pkg, as.Lhs[0])] = true
			}
		}
		return true
	})
	n := 0
	ast.Inspect(f.Decl.Body, func(nd ast.Node) bool {
		ifs, ok := nd.(*ast.IfStmt)
		if !ok {
			return true
		}
		n++
		bad := ""
		ast.Inspect(ifs.Cond, func(m ast.Node) bool {
			if se, isSel := m.(*ast.SelectorExpr); isSel {
				if o := core.ObjOf(f.Pkg, se.X); o != nil && dest[o] {
					bad = core.ExprString(se)
				}
			}
			return true
		})
		c.Check(bad == "", "exporter-guards-on-source", fmt.Sprintf("%s condition #%d tests the source object", f.Name(), n), ifs.Pos(),
			"the condition reads "+bad+", a field of the API object the function has just created and not yet filled: it is constant, and the attribute it guards is never exported")
		return true
	})
}
