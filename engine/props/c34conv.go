package props

import (
	"fmt"
	"go/ast"
	"go/token"
	"go/types"
	"strings"

	"verif/engine/core"
)

// conversionLoops: the to/from-API conversions (everything reachable from the paired ToProto/FromProto functions) copy
// lists element by element.
//
//	(a) copy(dst, src) copies min(len(dst), len(src)) elements: a destination made with length 0 (make(T, 0, n))
//	    receives nothing — the list comes out empty;
//	(b) element i is a function of element i only: a scalar declared outside the loop and assigned inside it must not
//	    be read in an iteration before it was assigned in that iteration (a "current kind" flag that is switched by one
//	    element and never reset leaks into all the elements behind it).
func conversionLoops(c *core.Ctx) {
	p := c.P
	const ruleA, ruleB = "copy-has-room", "element-conversion-is-stateless"
	c.Floor(ruleA, 3)
	c.Floor("conversion-covers-every-element", 6)
	var roots []*core.Fn
	for _, pr := range c34Pairs {
		for _, k := range []string{pr.to, pr.from} {
			if f := p.Func(k); f != nil {
				roots = append(roots, f)
			}
		}
	}
	nLoops := 0
	for _, f := range p.ReachableFns(roots...) {
		if f.Decl.Body == nil || isTestFn(p, f) {
			continue
		}
		// (c) a list conversion loop stores one element per iteration: nothing inside the loop decides whether the
		// element is converted (a skipped element is missing from the result, so the round trip loses it)
		ast.Inspect(f.Decl.Body, func(n ast.Node) bool {
			var body *ast.BlockStmt
			switch l := n.(type) {
			case *ast.RangeStmt:
				body = l.Body
			case *ast.ForStmt:
				body = l.Body
			}
			if body == nil {
				return true
			}
			ast.Inspect(body, func(m ast.Node) bool {
				switch m.(type) {
				case *ast.RangeStmt, *ast.ForStmt, *ast.FuncLit:
					return m == ast.Node(body)
				}
				as, ok := m.(*ast.AssignStmt)
				if !ok || len(as.Lhs) != 1 || len(as.Rhs) != 1 {
					return true
				}
				isStore := false
				if ie, ok := core.Unparen(as.Lhs[0]).(*ast.IndexExpr); ok {
					if _, isSlice := f.Pkg.TypesInfo.TypeOf(ie.X).Underlying().(*types.Slice); isSlice {
						isStore = true
					}
				}
				if call, ok := core.Unparen(as.Rhs[0]).(*ast.CallExpr); ok {
					if id, ok := call.Fun.(*ast.Ident); ok && id.Name == "append" && len(call.Args) >= 1 && core.SameExpr(f.Pkg, call.Args[0], as.Lhs[0]) {
						isStore = true
					}
				}
				if !isStore {
					return true
				}
				c.Analysed(f)
				cond := ""
				for _, ft := range core.CtlFactsAt(f, as) {
					if ft.Expr != nil && ft.Expr.Pos() >= body.Pos() && ft.Expr.End() <= body.End() {
						cond = core.ExprString(ft.Expr)
					}
				}
				c.Check(cond == "", "conversion-covers-every-element", fmt.Sprintf("%s stores %s for every element", f.Name(), core.ExprString(as.Lhs[0])), as.Pos(),
					"inside the conversion loop the element is stored only under `"+cond+"`: elements for which it does not hold are missing from the converted list, so converting a route to its API form and back does not give the same route")
				return true
			})
			return true
		})
		// (a)
		ast.Inspect(f.Decl.Body, func(n ast.Node) bool {
			call, ok := n.(*ast.CallExpr)
			if !ok || len(call.Args) != 2 {
				return true
			}
			if id, ok := call.Fun.(*ast.Ident); !ok || id.Name != "copy" {
				return true
			}
			c.Analysed(f)
			construct := fmt.Sprintf("%s copy into %s", f.Name(), core.ExprString(call.Args[0]))
			zero := false
			var def ast.Expr
			dst := core.Unparen(call.Args[0])
			// the definition(s) of the destination: a local, or a field assigned in this function
			var defs []ast.Expr
			if o := core.ObjOf(f.Pkg, dst); o != nil {
				defs = core.DefsOf(f, o)
			}
			ast.Inspect(f.Decl.Body, func(m ast.Node) bool {
				if as, ok := m.(*ast.AssignStmt); ok && len(as.Lhs) == len(as.Rhs) {
					for i, l := range as.Lhs {
						if core.SameExpr(f.Pkg, core.Unparen(l), dst) {
							defs = append(defs, as.Rhs[i])
						}
					}
				}
				return true
			})
			for _, d := range defs {
				mk, ok := core.Unparen(d).(*ast.CallExpr)
				if !ok || len(mk.Args) < 2 {
					continue
				}
				if id, ok := mk.Fun.(*ast.Ident); !ok || id.Name != "make" {
					continue
				}
				if v := core.ConstOf(f.Pkg, mk.Args[1]); v != nil && v.ExactString() == "0" {
					zero, def = true, d
				}
			}
			why := ""
			if zero {
				why = "the destination is made with length 0 (`" + core.ExprString(def) + "`): copy() copies min(len(dst), len(src)) = 0 elements"
			}
			c.Check(!zero, ruleA, construct, call.Pos(), why+" — the list arrives empty on the other side of the API")
			return true
		})
		// (b)
		ast.Inspect(f.Decl.Body, func(n ast.Node) bool {
			var body *ast.BlockStmt
			switch l := n.(type) {
			case *ast.ForStmt:
				body = l.Body
			case *ast.RangeStmt:
				body = l.Body
			}
			if body == nil {
				return true
			}
			nLoops++
			// scalars declared outside, assigned inside
			cands := map[types.Object]bool{}
			ast.Inspect(body, func(m ast.Node) bool {
				as, ok := m.(*ast.AssignStmt)
				if !ok || as.Tok != token.ASSIGN {
					return true
				}
				for _, l := range as.Lhs {
					id, ok := core.Unparen(l).(*ast.Ident)
					if !ok {
						continue
					}
					o := f.Pkg.TypesInfo.ObjectOf(id)
					if o == nil || (o.Pos() >= n.Pos() && o.Pos() < n.End()) {
						continue
					}
					if b, isB := o.Type().Underlying().(*types.Basic); isB && b.Info()&(types.IsBoolean|types.IsInteger|types.IsString) != 0 {
						cands[o] = true
					}
				}
				return true
			})
			if len(cands) == 0 {
				return true
			}
			c.Analysed(f)
			g := p.CFG(f)
			for o := range cands {
				isAssign := func(nd ast.Node) bool {
					as, ok := nd.(*ast.AssignStmt)
					if !ok {
						return false
					}
					for _, l := range as.Lhs {
						if core.ObjOf(f.Pkg, l) == o {
							return true
						}
					}
					return false
				}
				// a read of o inside the body reachable from the start of an iteration without passing an assignment:
				// start = first statement of the body
				if len(body.List) == 0 {
					continue
				}
				first := body.List[0]
				var firstNode ast.Node = first
				if ifs, ok := first.(*ast.IfStmt); ok {
					firstNode = ifs.Cond
				}
				isStart := func(nd ast.Node) bool { return nd == firstNode || nd == ast.Node(first) }
				isRead := func(nd ast.Node) bool {
					if nd.Pos() < body.Pos() || nd.End() > body.End() {
						return false
					}
					if as, ok := nd.(*ast.AssignStmt); ok {
						// reads on the right-hand side (and in index expressions on the left)
						for _, r := range as.Rhs {
							if core.NodeHas(r, func(x ast.Node) bool { id, ok := x.(*ast.Ident); return ok && f.Pkg.TypesInfo.ObjectOf(id) == o }) {
								return true
							}
						}
						return false
					}
					return core.NodeHas(nd, func(x ast.Node) bool { id, ok := x.(*ast.Ident); return ok && f.Pkg.TypesInfo.Uses[id] == o })
				}
				// the first node itself may read
				stale := isRead(firstNode) && !isAssign(firstNode)
				var hits []ast.Node
				if !stale {
					hits = core.PathAvoidingFrom(g, isStart, isAssign, func(nd ast.Node) bool { return isRead(nd) && !isStart(nd) })
					// an assignment that also reads (x = x + 1) gates itself; treat its read as stale too
					for _, h := range hits {
						if h.Pos() >= body.Pos() && h.End() <= body.End() {
							stale = true
						}
					}
				}
				pos := n.Pos()
				if len(hits) > 0 {
					pos = hits[0].Pos()
				}
				c.Check(!stale, ruleB, fmt.Sprintf("%s loop at %s: `%s` is set anew before it is used in every iteration", f.Name(), p.Pos(n.Pos()), o.Name()), pos,
					"`"+o.Name()+"` is declared outside the loop, assigned inside it under a condition, and read in an iteration that has not assigned it: its value comes from an earlier element (e.g. every segment after an AS_SET is converted as AS_SET)")
			}
			return true
		})
	}
	c.Check(nLoops >= 3, ruleB, "conversion loops analysed", token.NoPos, fmt.Sprintf("found %d", nLoops))
}

// conversionsArePure:
//
//	(a) exporting a value to its API form does not write the value: nothing reachable from a ToProto function (inside
//	    the converted packages) assigns through the receiver or a parameter.  A memoised API form kept inside a shared
//	    attribute object survives Copy() and direct field assignments (next-hop-self), so a later export reports the
//	    OLD next hop;
//	(b) importing builds the value from the message's fields and returns it as built: a from-function for a struct
//	    VALUE does not pass its result through another method of that type (a normalisation such as un-mapping
//	    ::ffff:a.b.c.d changes the address family of what the API carried).
func conversionsArePure(c *core.Ctx) {
	p := c.P
	const ruleA, ruleB = "export-does-not-write-the-value", "import-returns-the-value-as-built"
	inConv := func(f *core.Fn) bool {
		for _, s := range []string{"bio-rd/route", "bio-rd/net", "protocols/bgp/types"} {
			if strings.HasSuffix(f.Pkg.PkgPath, s) {
				return true
			}
		}
		return false
	}
	var tos []*core.Fn
	for _, pr := range c34Pairs {
		if f := p.Func(pr.to); f != nil {
			tos = append(tos, f)
		}
	}
	nA := 0
	for _, f := range p.ReachableFns(tos...) {
		if f.Decl.Body == nil || !inConv(f) || isTestFn(p, f) {
			continue
		}
		nA++
		c.Analysed(f)
		outer := map[types.Object]bool{}
		if r := recvObj(f); r != nil {
			outer[r] = true
		}
		sig := f.Obj.Type().(*types.Signature)
		for i := 0; i < sig.Params().Len(); i++ {
			outer[sig.Params().At(i)] = true
		}
		bad := ""
		var at ast.Node = f.Decl
		ast.Inspect(f.Decl.Body, func(nd ast.Node) bool {
			as, ok := nd.(*ast.AssignStmt)
			if !ok {
				return true
			}
			for _, l := range as.Lhs {
				if _, plain := core.Unparen(l).(*ast.Ident); plain {
					continue
				}
				if b := core.BaseIdent(l); b != nil && outer[core.ObjOf(f.Pkg, b)] {
					// value receivers/params are copies: only pointer-typed ones reach the caller's object
					if _, isPtr := core.ObjOf(f.Pkg, b).Type().Underlying().(*types.Pointer); isPtr {
						bad, at = core.ExprString(l), as
					}
				}
			}
			return true
		})
		c.Check(bad == "", ruleA, f.Name()+" leaves the value it exports untouched", at.Pos(),
			"while a value is converted to its API form `"+bad+"` is assigned: state kept inside the (shared, copied) object — a cached API form — is not invalidated by direct field assignments elsewhere, so a later export of a modified copy reports the old contents")
	}
	c.Check(nA >= 6, ruleA, "export functions examined", 0, fmt.Sprintf("examined %d functions reachable from the ToProto roots, floor 6", nA))
	nB := 0
	for _, pr := range c34Pairs {
		f := p.Func(pr.from)
		if f == nil || f.Decl.Body == nil {
			continue
		}
		sig := f.Obj.Type().(*types.Signature)
		if sig.Results().Len() != 1 {
			continue
		}
		rt, ok := sig.Results().At(0).Type().(*types.Named)
		if !ok {
			continue
		}
		if _, isStruct := rt.Underlying().(*types.Struct); !isStruct {
			continue
		}
		nB++
		ast.Inspect(f.Decl.Body, func(nd ast.Node) bool {
			r, ok := nd.(*ast.ReturnStmt)
			if !ok || len(r.Results) != 1 {
				return true
			}
			call, isCall := core.Unparen(r.Results[0]).(*ast.CallExpr)
			okRet := true
			if isCall {
				if cal := core.Callee(f.Pkg, call); cal != nil && core.RecvName(cal) == rt.Obj().Name() {
					okRet = false
				}
			}
			c.Check(okRet, ruleB, fmt.Sprintf("%s return #%d", f.Name(), retIndex(f, r)), r.Pos(),
				"the imported value is passed through another method of its type before it is returned: what comes back differs from what the API message carried (e.g. an IPv4-mapped IPv6 next hop turns into an IPv4 address), so export followed by import is not the identity")
			return true
		})
	}
	c.Check(nB >= 1, ruleB, "struct-valued import functions examined", 0, "none found (net.IPFromProtoIP was confirmed by hand)")
}
