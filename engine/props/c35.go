package props

import (
	"fmt"
	"go/ast"
	"go/token"
	"go/types"

	"verif/engine/core"
)

func init() {
	Register(&Prop{
		Meta: core.Meta{
			ID: "C35", Title: "The shortest-path-tree computation is correct on every graph", Level: "other",
			Technique:   "maybe-nil local analysis on go/cfg: a nil-initialised pointer local must be definitely assigned or nil-checked before every dereference",
			DesignRef:   "DESIGN.md §4 C35",
			Decided:     "(0) no function reachable from Topology.SPT stores into the Topology (its node or edge maps): a computation from one source leaves nothing behind for the next; necessary conditions of Dijkstra's algorithm that are visible as guards: (a) the greedy selection assigns the next node only from a candidate whose tentative distance is not the 'unreached' sentinel, and only when there is no choice yet or the candidate is strictly/weakly closer than the current choice (which is recorded together with it); (b) relaxation stores from.Distance + edge weight, and overwrites a reached node's distance only when that sum is smaller; (c) NewTopology stores every input edge — a guard on the weight may only exclude negative weights; and the panic clause: in package util/dijkstra no pointer local that starts as nil and is assigned only on some paths (the `next` candidate of the greedy selection) is dereferenced on a path that carries neither an assignment of a non-nil value nor a dominating nil test; additionally every map-typed field of Topology that SPT indexes for writing is made in NewTopology.",
			NotDecided:  "that these guards add up to minimal distances on every graph is the algorithm's correctness proof, a numerical argument static analysis does not make; the rules are necessary conditions (breaking one breaks some graph), not sufficient ones.",
			TrustedBase: stdTrusted,
		},
		Run: runC35,
		Controls: []Control{
			{Name: "last-hop-read-from-a-path-that-may-be-empty", File: "util/dijkstra/dijkstra.go", Old: "\t\t\tif spt[from].Distance+distance < spt[neighbor].Distance {\n", New: "\t\t\tif e := spt[neighbor].Edges; spt[from].Distance+distance == spt[neighbor].Distance && e[len(e)-1].NodeA == from {\n\t\t\t\tcontinue\n\t\t\t}\n\t\t\tif spt[from].Distance+distance < spt[neighbor].Distance {\n", Expect: "index-in-bounds"},
			{Name: "isolated-source-returned-unseeded", File: "util/dijkstra/dijkstra.go", Old: "\tspt := t.newSPT()\n\n\ttmp := spt[from]\n", New: "\tspt := t.newSPT()\n\tif len(t.edges[from]) == 0 {\n\t\treturn spt\n\t}\n\n\ttmp := spt[from]\n", Expect: "source-has-distance-zero"},
			{Name: "spt-seeds-source-in-topology", File: "util/dijkstra/dijkstra.go", Old: "\tspt := t.newSPT()\n", New: "\tt.nodes[from] = 0\n\tspt := t.newSPT()\n", Expect: "spt-leaves-topology-untouched"},
			{Name: "selection-takes-unreached-candidate", File: "util/dijkstra/dijkstra.go", Old: "\t\t\tif spt[candidate].Distance == -1 {\n\t\t\t\tcontinue\n\t\t\t}\n", New: "", Expect: "dijkstra-selection"},
			{Name: "selection-prefers-farther", File: "util/dijkstra/dijkstra.go", Old: "\t\t\tif spt[candidate].Distance < nextDistance {", New: "\t\t\tif spt[candidate].Distance > nextDistance {", Expect: "dijkstra-selection"},
			{Name: "zero-weight-edges-dropped", File: "util/dijkstra/dijkstra.go", Old: "\tfor _, e := range edges {\n", New: "\tfor _, e := range edges {\n\t\tif e.Distance <= 0 {\n\t\t\tcontinue\n\t\t}\n", Expect: "dijkstra-edges-stored"},
			{Name: "relaxation-keeps-larger", File: "util/dijkstra/dijkstra.go", Old: "\t\t\tif spt[from].Distance+distance < spt[neighbor].Distance {", New: "\t\t\tif spt[from].Distance+distance > spt[neighbor].Distance {", Expect: "dijkstra-relaxation"},
			{Name: "refactor-selection-single-guard", Silent: true, File: "util/dijkstra/dijkstra.go",
				Old: "\t\t\tif next == nil {\n\t\t\t\ttmp := candidate\n\t\t\t\tnext = &tmp\n\t\t\t\tnextDistance = spt[candidate].Distance\n\t\t\t\tcontinue\n\t\t\t}\n\n\t\t\tif spt[candidate].Distance < nextDistance {",
				New: "\t\t\tif next == nil || spt[candidate].Distance < nextDistance {"},
			{Name: "refactor-reject-negative-weights", Silent: true, File: "util/dijkstra/dijkstra.go", Old: "\tfor _, e := range edges {\n", New: "\tfor _, e := range edges {\n\t\tif e.Distance < 0 {\n\t\t\tcontinue\n\t\t}\n"},
			{Name: "drop-nil-check-on-next", File: "util/dijkstra/dijkstra.go", Old: "\t\tif next == nil {\n\t\t\tbreak\n\t\t}\n", New: "", Expect: "maybe-nil-deref"},
		},
	})
}

func runC35(c *core.Ctx) {
	sptReadsTopologyOnly(c)
	sourceSeededOnEveryPath(c)
	dijkstraIndexOps(c)
	p := c.P
	fns := p.FuncsIn("util/dijkstra")
	if len(fns) == 0 {
		c.Undecided("anchor", "util/dijkstra", token.NoPos, "package not found")
		return
	}
	c.MustFunc("util/dijkstra.(*Topology).SPT")
	n := 0
	for _, f := range fns {
		if f.Decl.Body == nil {
			continue
		}
		c.Analysed(f)
		n += maybeNilLocals(c, f, "maybe-nil-deref")
	}
	dijkstraShape(c)
	c.Check(n >= 1, "maybe-nil-deref", "util/dijkstra has a nil-initialised pointer local (the greedy candidate)", token.NoPos, "the rule found no nil-initialised pointer local in util/dijkstra: the selection loop it was confirmed on is gone")
}

// maybeNilLocals checks every pointer-typed local declared without initialiser (or = nil) in f.  Returns the number of
// dereference obligations generated.
func maybeNilLocals(c *core.Ctx, f *core.Fn, rule string) int {
	pk := f.Pkg
	type local struct {
		obj  types.Object
		decl ast.Node // the ValueSpec: go/cfg lists each var spec as its own node
	}
	var locals []local
	ast.Inspect(f.Decl.Body, func(n ast.Node) bool {
		switch s := n.(type) {
		case *ast.DeclStmt:
			gd, ok := s.Decl.(*ast.GenDecl)
			if !ok || gd.Tok != token.VAR {
				return true
			}
			for _, sp := range gd.Specs {
				vs := sp.(*ast.ValueSpec)
				for i, nm := range vs.Names {
					o := pk.TypesInfo.Defs[nm]
					if o == nil {
						continue
					}
					if _, isPtr := o.Type().Underlying().(*types.Pointer); !isPtr {
						continue
					}
					if len(vs.Values) == 0 || (i < len(vs.Values) && core.IsNilIdent(pk, vs.Values[i])) {
						locals = append(locals, local{o, vs})
					}
				}
			}
		}
		return true
	})
	count := 0
	g := c.P.CFG(f)
	for _, l := range locals {
		ord := 0
		ast.Inspect(f.Decl.Body, func(n ast.Node) bool {
			var deref ast.Node
			switch x := n.(type) {
			case *ast.StarExpr:
				if core.ObjOf(pk, x.X) == l.obj {
					deref = x
				}
			case *ast.SelectorExpr:
				if core.ObjOf(pk, x.X) == l.obj {
					deref = x
				}
			}
			if deref == nil {
				return true
			}
			ord++
			count++
			construct := fmt.Sprintf("%s deref #%d of %s", f.Name(), ord, l.obj.Name())
			// (a) dominating nil test
			id := &ast.Ident{Name: l.obj.Name()}
			_ = id
			facts := core.FactsAt(f, deref)
			for _, ft := range facts {
				if ft.Expr == nil || ft.Truth {
					continue
				}
				if x, ok := core.IsNilCheck(pk, ft.Expr); ok && core.ObjOf(pk, x) == l.obj {
					c.Hold(rule, construct, deref.Pos(), "dominated by a nil test")
					return true
				}
			}
			// (b) definite assignment on every path from the declaration
			isDecl := func(nd ast.Node) bool { return nd == l.decl }
			assigns := func(nd ast.Node) bool {
				as, ok := nd.(*ast.AssignStmt)
				if !ok {
					return false
				}
				for i, lh := range as.Lhs {
					if core.ObjOf(pk, lh) == l.obj && i < len(as.Rhs) && !core.IsNilIdent(pk, as.Rhs[i]) {
						if _, isAddr := core.Unparen(as.Rhs[i]).(*ast.UnaryExpr); isAddr {
							return true
						}
						if _, isLit := core.Unparen(as.Rhs[i]).(*ast.CompositeLit); isLit {
							return true
						}
					}
				}
				return false
			}
			isDeref := func(nd ast.Node) bool { return core.NodeHas(nd, func(x ast.Node) bool { return x == deref }) }
			bad, started := core.PathAvoidingFromS(g, isDecl, assigns, isDeref)
			if !started {
				c.Undecided(rule, construct, deref.Pos(), "declaration of the local not found in the control-flow graph")
				return true
			}
			c.Check(len(bad) == 0, rule, construct, deref.Pos(),
				fmt.Sprintf("pointer local %s starts as nil, is assigned only on some paths (inside a conditional or a loop that may run zero times) and is dereferenced here without a nil test: panics when no assignment happened (for the greedy selection: no unmarked node is reachable)", l.obj.Name()))
			return true
		})
	}
	return count
}

// dijkstraShape checks the guard structure of the greedy selection, the relaxation and the edge table.
func dijkstraShape(c *core.Ctx) {
	p := c.P
	const pkg = "util/dijkstra"
	distF := p.Field(pkg, "Path", "Distance")
	edgeDist := p.Field(pkg, "Edge", "Distance")
	isSentinel := func(f *core.Fn, e ast.Expr) bool {
		v := core.ConstOf(f.Pkg, e)
		return v != nil && v.ExactString() == "-1"
	}
	// is e the tentative distance of the variable obj: spt[obj].Distance, or a local defined as that
	var distOf func(f *core.Fn, e ast.Expr, obj types.Object, depth int) bool
	distOf = func(f *core.Fn, e ast.Expr, obj types.Object, depth int) bool {
		e = core.Unparen(e)
		if se, ok := e.(*ast.SelectorExpr); ok && core.FieldOf(f.Pkg, se) == distF && distF != nil {
			if ix, isIx := core.Unparen(se.X).(*ast.IndexExpr); isIx {
				return core.ObjOf(f.Pkg, ix.Index) == obj
			}
		}
		if o := core.ObjOf(f.Pkg, e); o != nil && depth < 2 {
			ds := core.DefsOf(f, o)
			if len(ds) == 1 {
				return distOf(f, ds[0], obj, depth+1)
			}
		}
		return false
	}
	if f := c.MustFunc(pkg + ".(*Topology).SPT"); f != nil {
		// locate the selection loop: a range loop whose body assigns a pointer local (the choice)
		var next, nextDist types.Object
		ast.Inspect(f.Decl.Body, func(n ast.Node) bool {
			if ds, ok := n.(*ast.DeclStmt); ok {
				if gd, isG := ds.Decl.(*ast.GenDecl); isG && gd.Tok == token.VAR {
					for _, sp := range gd.Specs {
						vs := sp.(*ast.ValueSpec)
						for _, nm := range vs.Names {
							if o := f.Pkg.TypesInfo.Defs[nm]; o != nil {
								if _, isPtr := o.Type().Underlying().(*types.Pointer); isPtr {
									next = o
								}
							}
						}
					}
				}
			}
			return true
		})
		if next == nil {
			c.Undecided("dijkstra-selection", f.Name()+" choice variable", f.Decl.Pos(), "no pointer local holding the selected node found")
			return
		}
		nSel := 0
		ast.Inspect(f.Decl.Body, func(n ast.Node) bool {
			rs, ok := n.(*ast.RangeStmt)
			if !ok {
				return true
			}
			cand := core.ObjOf(f.Pkg, rs.Key)
			if cand == nil {
				return true
			}
			ast.Inspect(rs.Body, func(m ast.Node) bool {
				as, isAs := m.(*ast.AssignStmt)
				if !isAs || len(as.Lhs) != 1 || core.ObjOf(f.Pkg, as.Lhs[0]) != next || as.Tok != token.ASSIGN {
					return true
				}
				nSel++
				construct := fmt.Sprintf("%s selection assignment #%d", f.Name(), nSel)
				reached, better, first := false, false, false
				var classify func(e ast.Expr, truth bool) (isFirst, isBetter bool)
				classify = func(e ast.Expr, truth bool) (bool, bool) {
					e = core.Unparen(e)
					if x, isNil := core.IsNilCheck(f.Pkg, e); isNil && truth && core.ObjOf(f.Pkg, x) == next {
						return true, false
					}
					be, isB := e.(*ast.BinaryExpr)
					if !isB {
						return false, false
					}
					if be.Op == token.LOR && truth {
						// a disjunction licenses the assignment only if every alternative does
						f1, b1 := classify(be.X, true)
						f2, b2 := classify(be.Y, true)
						if (f1 || b1) && (f2 || b2) {
							return f1 || f2, b1 || b2
						}
						return false, false
					}
					lt := (be.Op == token.LSS || be.Op == token.LEQ) && truth || (be.Op == token.GTR || be.Op == token.GEQ) && !truth
					gt := (be.Op == token.GTR || be.Op == token.GEQ) && truth || (be.Op == token.LSS || be.Op == token.LEQ) && !truth
					if lt && distOf(f, be.X, cand, 0) && !distOf(f, be.Y, cand, 0) {
						nextDist = core.ObjOf(f.Pkg, be.Y)
						return false, true
					}
					if gt && distOf(f, be.Y, cand, 0) && !distOf(f, be.X, cand, 0) {
						nextDist = core.ObjOf(f.Pkg, be.X)
						return false, true
					}
					return false, false
				}
				for _, ft := range core.FactsAt(f, as) {
					if ft.Expr == nil {
						continue
					}
					if be, isB := core.Unparen(ft.Expr).(*ast.BinaryExpr); isB {
						// candidate distance is not the sentinel
						if (be.Op == token.EQL && !ft.Truth || be.Op == token.NEQ && ft.Truth) && ((distOf(f, be.X, cand, 0) && isSentinel(f, be.Y)) || (distOf(f, be.Y, cand, 0) && isSentinel(f, be.X))) {
							reached = true
						}
					}
					fi, bt := classify(ft.Expr, ft.Truth)
					first, better = first || fi, better || bt
				}
				c.Check(reached, "dijkstra-selection", construct+" only takes a reached candidate", as.Pos(),
					"the greedy selection can choose a node whose tentative distance is still the 'unreached' sentinel −1: the algorithm then expands an unreachable node from base distance −1, marks unreachable nodes reachable and can lower the source's own distance")
				c.Check(first || better, "dijkstra-selection", construct+" takes the first or a closer candidate", as.Pos(),
					"the selected node is replaced by a candidate that is not known to be closer than the current choice: the closest unmarked node is not the one expanded next, so distances computed from it are not minimal")
				return true
			})
			return true
		})
		c.Check(nSel >= 1, "dijkstra-selection", f.Name()+" greedy selection found", f.Decl.Pos(), "no assignment of the selected node inside a loop over the unmarked nodes found")
		// the recorded distance of the choice is updated together with the choice
		if nextDist != nil {
			okAll := true
			ast.Inspect(f.Decl.Body, func(n ast.Node) bool {
				bl, ok := n.(*ast.BlockStmt)
				if !ok {
					return true
				}
				hasNext, hasDist := false, false
				for _, st := range bl.List {
					if as, isAs := st.(*ast.AssignStmt); isAs && len(as.Lhs) == 1 && as.Tok == token.ASSIGN {
						if core.ObjOf(f.Pkg, as.Lhs[0]) == next {
							hasNext = true
						}
						if core.ObjOf(f.Pkg, as.Lhs[0]) == nextDist {
							hasDist = true
						}
					}
				}
				if hasNext && !hasDist {
					okAll = false
				}
				return true
			})
			c.Check(okAll, "dijkstra-selection", f.Name()+" records the distance of the choice with the choice", f.Decl.Pos(), "a selection assignment does not update the recorded distance of the current choice: later candidates are compared with a stale distance")
		}
		// relaxation
		nRel := 0
		ast.Inspect(f.Decl.Body, func(n ast.Node) bool {
			rs, ok := n.(*ast.RangeStmt)
			if !ok || rs.Value == nil {
				return true
			}
			nb, w := core.ObjOf(f.Pkg, rs.Key), core.ObjOf(f.Pkg, rs.Value)
			if nb == nil || w == nil {
				return true
			}
			isSum := func(e ast.Expr) bool {
				be, isB := core.Unparen(e).(*ast.BinaryExpr)
				if !isB || be.Op != token.ADD {
					return false
				}
				fromD := func(x ast.Expr) bool {
					se, isS := core.Unparen(x).(*ast.SelectorExpr)
					return isS && core.FieldOf(f.Pkg, se) == distF && !distOf(f, x, nb, 0)
				}
				return (fromD(be.X) && core.ObjOf(f.Pkg, be.Y) == w) || (fromD(be.Y) && core.ObjOf(f.Pkg, be.X) == w)
			}
			ast.Inspect(rs.Body, func(m ast.Node) bool {
				as, isAs := m.(*ast.AssignStmt)
				if !isAs || len(as.Lhs) != 1 || core.FieldOf(f.Pkg, as.Lhs[0]) != distF || distF == nil {
					return true
				}
				nRel++
				construct := fmt.Sprintf("%s relaxation store #%d", f.Name(), nRel)
				c.Check(isSum(as.Rhs[0]), "dijkstra-relaxation", construct+" stores from.Distance + weight", as.Pos(), "the tentative distance written for a neighbour is not the distance of the expanded node plus the edge weight")
				fresh, smaller := false, false
				for _, ft := range core.FactsAt(f, as) {
					be, isB := core.Unparen(ft.Expr).(*ast.BinaryExpr)
					if !isB {
						continue
					}
					if be.Op == token.EQL && ft.Truth && ((distOf(f, be.X, nb, 0) && isSentinel(f, be.Y)) || (distOf(f, be.Y, nb, 0) && isSentinel(f, be.X))) {
						fresh = true
					}
					lt := (be.Op == token.LSS || be.Op == token.LEQ) && ft.Truth || (be.Op == token.GTR || be.Op == token.GEQ) && !ft.Truth
					gt := (be.Op == token.GTR || be.Op == token.GEQ) && ft.Truth || (be.Op == token.LSS || be.Op == token.LEQ) && !ft.Truth
					if (lt && isSum(be.X) && distOf(f, be.Y, nb, 0)) || (gt && isSum(be.Y) && distOf(f, be.X, nb, 0)) {
						smaller = true
					}
				}
				c.Check(fresh || smaller, "dijkstra-relaxation", construct+" only for an unreached neighbour or a smaller sum", as.Pos(), "a reached neighbour's distance is overwritten without the new sum being smaller: distances are not minimal")
				return true
			})
			return true
		})
		c.Check(nRel >= 1, "dijkstra-relaxation", f.Name()+" relaxation found", f.Decl.Pos(), "no store of a tentative distance inside a loop over the outgoing edges found")
	}
	if f := c.MustFunc(pkg + ".NewTopology"); f != nil {
		edgesF := p.Field(pkg, "Topology", "edges")
		n := 0
		ast.Inspect(f.Decl.Body, func(nd ast.Node) bool {
			as, ok := nd.(*ast.AssignStmt)
			if !ok || len(as.Lhs) != 1 || len(as.Rhs) != 1 || core.FieldOf(f.Pkg, as.Rhs[0]) != edgeDist || edgeDist == nil {
				return true
			}
			if !core.MentionsField(f.Pkg, as.Lhs[0], edgesF) {
				return true
			}
			n++
			bad := ""
			for _, ft := range core.CtlFactsAt(f, as) {
				if ft.Expr == nil || !core.MentionsField(f.Pkg, ft.Expr, edgeDist) {
					continue
				}
				be, isB := core.Unparen(ft.Expr).(*ast.BinaryExpr)
				okGuard := false
				if isB && core.FieldOf(f.Pkg, be.X) == edgeDist {
					if v := core.ConstOf(f.Pkg, be.Y); v != nil {
						if cv, exact := constantInt(v); exact {
							switch {
							case be.Op == token.LSS && !ft.Truth, be.Op == token.GEQ && ft.Truth:
								okGuard = cv <= 0
							case be.Op == token.LEQ && !ft.Truth, be.Op == token.GTR && ft.Truth:
								okGuard = cv < 0
							case be.Op == token.EQL && !ft.Truth, be.Op == token.NEQ && ft.Truth:
								okGuard = cv < 0
							}
						}
					}
				}
				if !okGuard {
					bad = core.ExprString(ft.Expr)
				}
			}
			c.Check(bad == "", "dijkstra-edges-stored", f.Name()+" stores every edge with a non-negative weight", as.Pos(),
				"the edge table entry is written only under a condition on the weight ("+bad+") that excludes some non-negative weights: those edges are silently missing from every shortest-path computation")
			return true
		})
		c.Check(n >= 1, "dijkstra-edges-stored", f.Name()+" edge table store found", f.Decl.Pos(), "no store of Edge.Distance into Topology.edges found")
	}
}

func constantInt(v interface{ ExactString() string }) (int64, bool) {
	var x int64
	_, err := fmt.Sscanf(v.ExactString(), "%d", &x)
	return x, err == nil
}

// sptReadsTopologyOnly: the shortest-path computation is a function of (topology, source).  It is run once per source on
// the same Topology; anything it stored in the Topology would leak into the next run.
func sptReadsTopologyOnly(c *core.Ctx) {
	const rule = "spt-leaves-topology-untouched"
	p := c.P
	c.Floor(rule, 1)
	spt := c.MustFunc("util/dijkstra.(*Topology).SPT")
	topo := p.Named("util/dijkstra", "Topology")
	if spt == nil || topo == nil {
		return
	}
	isTopoField := func(f *core.Fn, e ast.Expr) bool {
		e = core.Unparen(e)
		for {
			switch x := e.(type) {
			case *ast.IndexExpr:
				e = core.Unparen(x.X)
				continue
			case *ast.StarExpr:
				e = core.Unparen(x.X)
				continue
			}
			break
		}
		fv := core.FieldOf(f.Pkg, e)
		return fv != nil && ownerName(fv) == "Topology"
	}
	n := 0
	for _, f := range p.ReachableFns(spt) {
		if f.Decl.Body == nil {
			continue
		}
		c.Analysed(f)
		n++
		bad := ""
		var pos = f.Decl.Pos()
		ast.Inspect(f.Decl.Body, func(nd ast.Node) bool {
			switch x := nd.(type) {
			case *ast.AssignStmt:
				for _, l := range x.Lhs {
					if isTopoField(f, l) {
						bad, pos = "stores into "+core.ExprString(l), x.Pos()
					}
				}
			case *ast.IncDecStmt:
				if isTopoField(f, x.X) {
					bad, pos = "changes "+core.ExprString(x.X), x.Pos()
				}
			case *ast.CallExpr:
				if id, ok := x.Fun.(*ast.Ident); ok && id.Name == "delete" && len(x.Args) == 2 && isTopoField(f, x.Args[0]) {
					bad, pos = "deletes from "+core.ExprString(x.Args[0]), x.Pos()
				}
			}
			return true
		})
		c.Check(bad == "", rule, f.Name()+" only reads the topology", pos, "the shortest-path computation "+bad+": the Topology is shared by the runs from every source, so a later run starts from what an earlier one left behind (earlier sources count as reached at distance 0: distances too small, unreachable nodes reported reachable)")
	}
	_ = n
}

// sourceSeededOnEveryPath: the tree SPT returns has the source at distance 0 — every return of SPT lies behind the
// store of the source's entry (spt[from] = …), and the value stored got Distance = 0.  A shortcut return ahead of the
// seeding hands out a tree in which the source itself is unreachable (-1).
func sourceSeededOnEveryPath(c *core.Ctx) {
	const rule = "source-has-distance-zero"
	p := c.P
	f := c.MustFunc("util/dijkstra.(*Topology).SPT")
	if f == nil {
		return
	}
	from := core.ParamObj(f, 0)
	distF := p.Field("util/dijkstra", "Path", "Distance")
	var seeded types.Object // the local stored at spt[from]
	isSeed := func(n ast.Node) bool {
		as, ok := n.(*ast.AssignStmt)
		if !ok || len(as.Lhs) != 1 {
			return false
		}
		ie, ok := core.Unparen(as.Lhs[0]).(*ast.IndexExpr)
		if !ok || from == nil || core.ObjOf(f.Pkg, ie.Index) != from {
			return false
		}
		seeded = core.ObjOf(f.Pkg, as.Rhs[0])
		return true
	}
	rets, implicit := core.ExitsWithout(p.CFG(f), isSeed)
	pos := f.Decl.Pos()
	if len(rets) > 0 {
		pos = rets[0].Pos()
	}
	c.Check(len(rets) == 0 && !implicit, rule, f.Name()+" seeds the source before every return", pos,
		"SPT can return before the source's entry was stored with distance 0: the returned tree reports the source itself as unreachable (distance -1)")
	// the stored value's Distance is the constant 0
	zero := false
	ast.Inspect(f.Decl.Body, func(n ast.Node) bool {
		as, ok := n.(*ast.AssignStmt)
		if !ok || len(as.Lhs) != 1 || len(as.Rhs) != 1 {
			return true
		}
		if core.FieldOf(f.Pkg, as.Lhs[0]) == distF && distF != nil {
			if b := core.BaseIdent(as.Lhs[0]); b != nil && seeded != nil && core.ObjOf(f.Pkg, b) == seeded {
				if v := core.ConstOf(f.Pkg, as.Rhs[0]); v != nil && v.ExactString() == "0" {
					zero = true
				}
			}
		}
		return true
	})
	c.Check(zero, rule, f.Name()+" gives the source distance 0", f.Decl.Pos(), "the entry stored for the source does not get Distance = 0")
}

// dijkstraIndexOps: every index/slice operation of util/dijkstra on a slice is discharged by the structural bounds rules
// or the linear bounds domain (the "never panics" clause): e.g. `p.Edges[len(p.Edges)-1]` needs len(p.Edges) ≥ 1 on
// every path — the source's own path is empty.
func dijkstraIndexOps(c *core.Ctx) {
	const rule = "index-in-bounds"
	p := c.P
	n := 0
	for _, f := range p.FuncsIn("util/dijkstra") {
		if f.Decl.Body == nil || isTestFn(p, f) {
			continue
		}
		for _, o := range core.PanicOps(f) {
			if o.Kind != "index" && o.Kind != "slice" {
				continue
			}
			if ie, ok := o.Node.(*ast.IndexExpr); ok {
				if t := f.Pkg.TypesInfo.TypeOf(ie.X); t != nil {
					if _, isMap := t.Underlying().(*types.Map); isMap {
						continue
					}
				}
			}
			n++
			c.Analysed(f)
			construct := fmt.Sprintf("%s %s #%d %s", f.Name(), o.Kind, o.Ord, exprOfNode(o.Node))
			if ok, why := p.DischargeIndexSlice(o); ok {
				c.Hold(rule, construct, o.Node.Pos(), why)
				continue
			}
			if dijkstraMadeWithRoom(f, o.Node) {
				c.Hold(rule, construct, o.Node.Pos(), "the slice was made with length n+1 in the same block and is indexed with n")
				continue
			}
			ok, why, _ := p.LinearDischarge(f, o.Node)
			c.Check(ok, rule, construct, o.Node.Pos(), "index/slice operation not shown to be in bounds ("+why+"): the shortest-path computation can panic on some graph (a path with no edges — the source's own — has no last element)")
		}
	}
	c.Check(n >= 1, rule, "index operations found", 0, "no slice index operation in util/dijkstra")
}

// dijkstraMadeWithRoom: x.F[len(E)] = … where the closest preceding statement in the same block assigning x.F is
// x.F = make(T, len(E)+1).
func dijkstraMadeWithRoom(f *core.Fn, node ast.Node) bool {
	ie, ok := node.(*ast.IndexExpr)
	if !ok {
		return false
	}
	found := false
	ast.Inspect(f.Decl.Body, func(n ast.Node) bool {
		blk, ok := n.(*ast.BlockStmt)
		if !ok {
			return true
		}
		var lastMake ast.Expr
		for _, st := range blk.List {
			as, isAs := st.(*ast.AssignStmt)
			if isAs && len(as.Lhs) == 1 && len(as.Rhs) == 1 {
				if core.SameExpr(f.Pkg, core.Unparen(as.Lhs[0]), core.Unparen(ie.X)) {
					lastMake = nil
					if call, isCall := core.Unparen(as.Rhs[0]).(*ast.CallExpr); isCall && len(call.Args) >= 2 {
						if id, isId := call.Fun.(*ast.Ident); isId && id.Name == "make" {
							lastMake = call.Args[1]
						}
					}
				}
				if core.NodeHas(as, func(x ast.Node) bool { return x == ast.Node(ie) }) && lastMake != nil {
					if be, isBin := core.Unparen(lastMake).(*ast.BinaryExpr); isBin && be.Op == token.ADD {
						if v := core.ConstOf(f.Pkg, be.Y); v != nil && v.ExactString() == "1" && core.SameExpr(f.Pkg, core.Unparen(be.X), core.Unparen(ie.Index)) {
							found = true
						}
					}
				}
			}
		}
		return true
	})
	return found
}
