package props

import (
	"fmt"
	"go/ast"
	"go/token"
	"go/types"

	"verif/engine/core"
)

func init() {
	Register(&Prop{
		Meta: core.Meta{
			ID: "C35", Title: "The shortest-path-tree computation is correct on every graph", Level: "other",
			Technique:   "maybe-nil local analysis on go/cfg: a nil-initialised pointer local must be definitely assigned or nil-checked before every dereference",
			DesignRef:   "DESIGN.md §4 C35",
			Decided:     "the panic clause only: in package util/dijkstra no pointer local that starts as nil and is assigned only on some paths (the `next` candidate of the greedy selection) is dereferenced on a path that carries neither an assignment of a non-nil value nor a dominating nil test; additionally every map-typed field of Topology that SPT indexes for writing is made in NewTopology.",
			NotDecided:  "distances and tree edges (minimality, existing edges, unreachable marking) are graph-numerical results — not applicable to static analysis; only freedom from the nil dereference is decided.",
			TrustedBase: stdTrusted,
		},
		Run: runC35,
		Controls: []Control{
			{Name: "drop-nil-check-on-next", File: "util/dijkstra/dijkstra.go", Old: "\t\tif next == nil {\n\t\t\tbreak\n\t\t}\n", New: "", Expect: "maybe-nil-deref"},
		},
	})
}

func runC35(c *core.Ctx) {
	p := c.P
	fns := p.FuncsIn("util/dijkstra")
	if len(fns) == 0 {
		c.Undecided("anchor", "util/dijkstra", token.NoPos, "package not found")
		return
	}
	c.MustFunc("util/dijkstra.(*Topology).SPT")
	n := 0
	for _, f := range fns {
		if f.Decl.Body == nil {
			continue
		}
		c.Analysed(f)
		n += maybeNilLocals(c, f, "maybe-nil-deref")
	}
	c.Check(n >= 1, "maybe-nil-deref", "util/dijkstra has a nil-initialised pointer local (the greedy candidate)", token.NoPos, "the rule found no nil-initialised pointer local in util/dijkstra: the selection loop it was confirmed on is gone")
}

// maybeNilLocals checks every pointer-typed local declared without initialiser (or = nil) in f.  Returns the number of
// dereference obligations generated.
func maybeNilLocals(c *core.Ctx, f *core.Fn, rule string) int {
	pk := f.Pkg
	type local struct {
		obj  types.Object
		decl ast.Node // the ValueSpec: go/cfg lists each var spec as its own node
	}
	var locals []local
	ast.Inspect(f.Decl.Body, func(n ast.Node) bool {
		switch s := n.(type) {
		case *ast.DeclStmt:
			gd, ok := s.Decl.(*ast.GenDecl)
			if !ok || gd.Tok != token.VAR {
				return true
			}
			for _, sp := range gd.Specs {
				vs := sp.(*ast.ValueSpec)
				for i, nm := range vs.Names {
					o := pk.TypesInfo.Defs[nm]
					if o == nil {
						continue
					}
					if _, isPtr := o.Type().Underlying().(*types.Pointer); !isPtr {
						continue
					}
					if len(vs.Values) == 0 || (i < len(vs.Values) && core.IsNilIdent(pk, vs.Values[i])) {
						locals = append(locals, local{o, vs})
					}
				}
			}
		}
		return true
	})
	count := 0
	g := c.P.CFG(f)
	for _, l := range locals {
		ord := 0
		ast.Inspect(f.Decl.Body, func(n ast.Node) bool {
			var deref ast.Node
			switch x := n.(type) {
			case *ast.StarExpr:
				if core.ObjOf(pk, x.X) == l.obj {
					deref = x
				}
			case *ast.SelectorExpr:
				if core.ObjOf(pk, x.X) == l.obj {
					deref = x
				}
			}
			if deref == nil {
				return true
			}
			ord++
			count++
			construct := fmt.Sprintf("%s deref #%d of %s", f.Name(), ord, l.obj.Name())
			// (a) dominating nil test
			id := &ast.Ident{Name: l.obj.Name()}
			_ = id
			facts := core.FactsAt(f, deref)
			for _, ft := range facts {
				if ft.Expr == nil || ft.Truth {
					continue
				}
				if x, ok := core.IsNilCheck(pk, ft.Expr); ok && core.ObjOf(pk, x) == l.obj {
					c.Hold(rule, construct, deref.Pos(), "dominated by a nil test")
					return true
				}
			}
			// (b) definite assignment on every path from the declaration
			isDecl := func(nd ast.Node) bool { return nd == l.decl }
			assigns := func(nd ast.Node) bool {
				as, ok := nd.(*ast.AssignStmt)
				if !ok {
					return false
				}
				for i, lh := range as.Lhs {
					if core.ObjOf(pk, lh) == l.obj && i < len(as.Rhs) && !core.IsNilIdent(pk, as.Rhs[i]) {
						if _, isAddr := core.Unparen(as.Rhs[i]).(*ast.UnaryExpr); isAddr {
							return true
						}
						if _, isLit := core.Unparen(as.Rhs[i]).(*ast.CompositeLit); isLit {
							return true
						}
					}
				}
				return false
			}
			isDeref := func(nd ast.Node) bool { return core.NodeHas(nd, func(x ast.Node) bool { return x == deref }) }
			bad, started := core.PathAvoidingFromS(g, isDecl, assigns, isDeref)
			if !started {
				c.Undecided(rule, construct, deref.Pos(), "declaration of the local not found in the control-flow graph")
				return true
			}
			c.Check(len(bad) == 0, rule, construct, deref.Pos(),
				fmt.Sprintf("pointer local %s starts as nil, is assigned only on some paths (inside a conditional or a loop that may run zero times) and is dereferenced here without a nil test: panics when no assignment happened (for the greedy selection: no unmarked node is reachable)", l.obj.Name()))
			return true
		})
	}
	return count
}
