package props

import (
	"fmt"
	"go/ast"
	"go/token"
	"go/types"
	"sort"

	"verif/engine/core"
)

func init() {
	Register(&Prop{
		Meta: core.Meta{
			ID: "C36", Title: "Configuration reload converges to the new configuration", Level: "other",
			Technique:   "reader/comparator field coverage (R-DEP): the configuration fields the session constructor reads versus the fields the restart decision compares or the reload applies in place; shape of every comparison (same field on both sides, no guard on the old side only); must-pass-through of the in-place policy replacement; set-difference structure of the peer diff",
			DesignRef:   "DESIGN.md §4 C36",
			Decided:     "(1) every field of PeerConfig / AddressFamilyConfig that newPeer (and the capability builders it calls) reads is compared by NeedsRestart, or applied in place by the reload (the two filter chains), or is the session key, or is derived from a compared field (table with reasons, derivations re-checked); (2) every comparison in NeedsRestart compares one field with the same field of the other configuration, and none is guarded by a condition on the old configuration alone; (3) when no restart is needed the reload replaces both filter chains on every non-error path; (4) every configured neighbor is either added or reconfigured, and every running peer that is not in the new configuration is disposed.",
			NotDecided:  "that a restarted session really comes up with the new settings (C23/C22), group-to-neighbor inheritance values (config loading), and sequences of reloads beyond the per-reload invariants above.",
			TrustedBase: stdTrusted,
		},
		Run: runC36,
		Controls: []Control{
			{Name: "idle-reactivates-a-stopped-peer", File: "protocols/bgp/server/fsm_idle.go", Old: "\tif !s.fsm.peer.passive && s.fsm.peer.reconnectInterval != 0 && !s.fsm.peer.isStopped() {\n\t\ttime.Sleep(s.fsm.peer.reconnectInterval)\n\t\t// a peer that was stopped (disposed) meanwhile does not come back on its own\n\t\tif !s.fsm.peer.isStopped() {\n\t\t\tgo s.fsm.activate()\n\t\t}\n\t}\n", New: "\tif !s.fsm.peer.passive && s.fsm.peer.reconnectInterval != 0 {\n\t\ttime.Sleep(s.fsm.peer.reconnectInterval)\n\t\tgo s.fsm.activate()\n\t}\n", Expect: "stopped-peer-does-not-restart-itself"},
			{Name: "ipv6-settings-are-the-ipv4-object", File: "cmd/bio-rd/bgp.go", Old: "\tp.IPv6 = c.newAFIConfig(bn, bg)\n", New: "\tp.IPv6 = p.IPv4\n\tif p.IPv6 == nil {\n\t\tp.IPv6 = c.newAFIConfig(bn, bg)\n\t}\n", Expect: "each-family-has-its-own-settings"},
			{Name: "refactor-family-settings-through-a-local", Silent: true, File: "cmd/bio-rd/bgp.go", Old: "\tp.IPv6 = c.newAFIConfig(bn, bg)\n", New: "\tafc := c.newAFIConfig(bn, bg)\n\tp.IPv6 = afc\n"},
			{Name: "no-groups-nothing-to-do", File: "cmd/bio-rd/bgp.go", Old: "func (c *bgpConfigurator) configure(cfg *config.BGP) error {\n", New: "func (c *bgpConfigurator) configure(cfg *config.BGP) error {\n\tif len(cfg.Groups) == 0 {\n\t\treturn nil\n\t}\n", Expect: "removed-sessions-deconfigured-on-every-success"},
			{Name: "neighbor-override-resets-both-directions", File: "cmd/bio-rd/config/bgp.go", Old: "\tif len(bn.Export) > 0 {\n\t\tbn.ExportFilterChain = filter.Chain{}\n\t}\n", New: "\tif len(bn.Export) > 0 || len(bn.Import) > 0 {\n\t\tbn.ExportFilterChain = filter.Chain{}\n\t}\n", Expect: "policy-override-is-per-direction"},
			{Name: "reload-installs-the-configured-chain-raw", File: "protocols/bgp/server/peer.go", Old: "func (p *peer) replaceImportFilterChain(c filter.Chain) {\n\t// the same default as for a chain configured at start (see newPeer): no policy means reject all\n\tc = filterOrDefault(c)\n", New: "func (p *peer) replaceImportFilterChain(c filter.Chain) {\n", Expect: "in-place-policy-normalised-like-fresh-start"},
			{Name: "refactor-normalise-at-each-store", Silent: true, File: "protocols/bgp/server/peer.go", Old: "func (p *peer) replaceExportFilterChain(c filter.Chain) {\n\t// the same default as for a chain configured at start (see newPeer): no policy means reject all\n\tc = filterOrDefault(c)\n", New: "func (p *peer) replaceExportFilterChain(c filter.Chain) {\n\teffective := filterOrDefault(c)\n\tc = effective\n"},
			{Name: "route-filter-equality-by-base-address", File: "routingtable/filter/route_filter.go", Old: "\tif f.pattern != x.pattern {\n", New: "\tif f.pattern != x.pattern && f.pattern.BaseAddr() != x.pattern.BaseAddr() {\n", Expect: "chain-equality-is-not-coarser"},
			{Name: "range-matcher-differs-only-if-both-bounds-differ", File: "routingtable/filter/prefix_matcher.go", Old: "\tif i.min != y.min || i.max != y.max {\n", New: "\tif i.min != y.min && i.max != y.max {\n", Expect: "chain-equality-is-not-coarser"},
			{Name: "replace-session-arguments-swapped", File: "cmd/bio-rd/bgp.go", Old: "func (c *bgpConfigurator) replaceSession(newCfg, oldCfg *bgpserver.PeerConfig) error {", New: "func (c *bgpConfigurator) replaceSession(oldCfg, newCfg *bgpserver.PeerConfig) error {", Expect: "added-peer-comes-from-new-configuration"},
			{Name: "addpath-options-compared-by-mode-only", File: "protocols/bgp/server/peer.go", Old: "\tif a.AddPathSend != x.AddPathSend {\n\t\treturn true\n\t}\n", New: "\tif a.AddPathSend.BestOnly != x.AddPathSend.BestOnly {\n\t\treturn true\n\t}\n", Expect: "restart-covers-session-settings"},
			{Name: "ttl-not-compared", File: "protocols/bgp/server/peer.go", Old: "\tif pc.TTL != x.TTL {\n\t\treturn true\n\t}\n\n", New: "", Expect: "restart-covers-session-settings"},
			{Name: "address-families-not-compared", File: "protocols/bgp/server/peer.go", Old: "\tif pc.IPv4.needsRestart(x.IPv4) || pc.IPv6.needsRestart(x.IPv6) {\n\t\treturn true\n\t}\n", New: "", Expect: "restart-covers-session-settings"},
			{Name: "role-compared-only-when-old-has-one", File: "protocols/bgp/server/peer.go", Old: "\tif pc.PeerRole != x.PeerRole {\n\t\treturn true\n\t}\n", New: "\tif peerRoleEnabled(pc.PeerRole) {\n\t\tif pc.PeerRole != x.PeerRole {\n\t\t\treturn true\n\t\t}\n\t}\n", Expect: "restart-compares-like-with-like"},
			{Name: "route-server-flag-compared-with-reflector-flag", File: "protocols/bgp/server/peer.go", Old: "\tif pc.RouteServerClient != x.RouteServerClient {", New: "\tif pc.RouteServerClient != x.RouteReflectorClient {", Expect: "restart-compares-like-with-like"},
			{Name: "policy-replaced-only-when-snapshot-differs", File: "cmd/bio-rd/bgp.go", Old: "\terr := c.srv.ReplaceImportFilterChain(", New: "\tif newCfg.IPv4 == oldCfg.IPv4 {\n\t\treturn nil\n\t}\n\n\terr := c.srv.ReplaceImportFilterChain(", Expect: "policy-replaced-in-place"},
			{Name: "refactor-comparisons-in-one-expression", Silent: true, File: "protocols/bgp/server/peer.go", Old: "\tif pc.TTL != x.TTL {\n\t\treturn true\n\t}\n\n\tif pc.RouteReflectorClusterID != x.RouteReflectorClusterID {\n\t\treturn true\n\t}\n", New: "\tif pc.TTL != x.TTL || pc.RouteReflectorClusterID != x.RouteReflectorClusterID {\n\t\treturn true\n\t}\n"},
		},
	})
}

func runC36(c *core.Ctx) {
	eachFamilyHasItsOwnSettings(c, "each-family-has-its-own-settings")
	removedSessionsAreDeconfiguredOnEverySuccess(c, "removed-sessions-deconfigured-on-every-success")
	addedPeerComesFromNewConfiguration(c)
	chainEqualityIsNotCoarser(c)
	inPlacePolicyIsNormalisedLikeAFreshStart(c)
	neighborOverridesPerDirection(c)
	stoppedPeerStaysDown(c)
	p := c.P
	newPeer := c.MustFunc(srv + ".newPeer")
	needs := c.MustFunc(srv + ".(*PeerConfig).NeedsRestart")
	reconf := c.MustFunc("cmd/bio-rd.(*bgpConfigurator).reconfigureModifiedSession")
	mk := c.MustFunc("cmd/bio-rd.(*bgpConfigurator).newPeerConfig")
	if newPeer == nil || needs == nil || reconf == nil || mk == nil {
		return
	}
	c.Analysed(newPeer, needs, reconf, mk)
	cfgT, afT := p.Named(srv, "PeerConfig"), p.Named(srv, "AddressFamilyConfig")
	isCfgField := map[*types.Var]string{}
	for _, nt := range []*types.Named{cfgT, afT} {
		if nt == nil {
			continue
		}
		st := nt.Underlying().(*types.Struct)
		for i := 0; i < st.NumFields(); i++ {
			isCfgField[st.Field(i)] = nt.Obj().Name() + "." + st.Field(i).Name()
		}
	}
	reads := p.ReadsTransitive(newPeer)
	cmp := p.ReadsTransitive(needs)
	exempt := map[string]string{
		"PeerConfig.PeerAddress":       "session key: a different address is a different session (handled by the add/remove diff)",
		"PeerConfig.ReconnectInterval": "constant set by the configurator (DefaultReconnectInterval), not configurable",
		"PeerConfig.KeepAlive":         "derived: the configurator sets it to HoldTime/3 from the same source as HoldTime, which is compared",
	}
	inPlace := map[string]bool{"AddressFamilyConfig.ImportFilterChain": true, "AddressFamilyConfig.ExportFilterChain": true}
	var names []string
	byName := map[string]*types.Var{}
	for fv, n := range isCfgField {
		if reads[fv] {
			names = append(names, n)
			byName[n] = fv
		}
	}
	// a struct-valued setting counts as compared only when the whole value is compared (== / != on the field of both
	// operands) or every member that the session is built from is read by the comparison
	wholeOrAllParts := func(fv *types.Var) bool {
		st, ok := fv.Type().Underlying().(*types.Struct)
		if !ok {
			return true
		}
		whole := false
		for _, g := range p.ReachableFns(needs) {
			ast.Inspect(g.Decl.Body, func(n ast.Node) bool {
				be, ok := n.(*ast.BinaryExpr)
				if ok && (be.Op == token.EQL || be.Op == token.NEQ) && core.FieldOf(g.Pkg, be.X) == fv && core.FieldOf(g.Pkg, be.Y) == fv {
					whole = true
				}
				return true
			})
		}
		if whole {
			return true
		}
		for i := 0; i < st.NumFields(); i++ {
			if !cmp[st.Field(i)] { // the session copies the structure as a whole: every member counts
				return false
			}
		}
		return true
	}
	sort.Strings(names)
	c.Check(len(names) >= 15, "restart-covers-session-settings", "configuration fields read by newPeer", newPeer.Decl.Pos(), fmt.Sprintf("found %d, floor 15", len(names)))
	for _, n := range names {
		construct := "session setting " + n + " takes effect on reload"
		switch {
		case cmp[byName[n]] && !wholeOrAllParts(byName[n]):
			c.Fail("restart-covers-session-settings", construct, needs.Decl.Pos(),
				n+" is a structure of several settings; NeedsRestart reads only part of it (neither compares the whole value nor every member the session is built from): a reload that changes one of the other members (e.g. the add-path path count) leaves the running session on the old value")
		case cmp[byName[n]]:
			c.Hold("restart-covers-session-settings", construct, needs.Decl.Pos(), "compared by NeedsRestart")
		case inPlace[n]:
			c.Hold("restart-covers-session-settings", construct, reconf.Decl.Pos(), "applied in place by the reload (rule policy-replaced-in-place)")
		case exempt[n] != "":
			c.Hold("restart-covers-session-settings", construct, needs.Decl.Pos(), "exempt: "+exempt[n])
		default:
			c.Fail("restart-covers-session-settings", construct, needs.Decl.Pos(),
				"newPeer builds the session from "+n+", but NeedsRestart does not compare it and the reload does not apply it in place: after a reload that changes only this setting the running session keeps the old value, unlike a fresh start with the new configuration")
		}
	}
	// the KeepAlive derivation
	{
		ok := false
		ast.Inspect(mk.Decl.Body, func(n ast.Node) bool {
			kv, isKV := n.(*ast.KeyValueExpr)
			if !isKV || core.ExprString(kv.Key) != "KeepAlive" {
				return true
			}
			var hold ast.Expr
			ast.Inspect(mk.Decl.Body, func(m ast.Node) bool {
				if k2, isK := m.(*ast.KeyValueExpr); isK && core.ExprString(k2.Key) == "HoldTime" {
					hold = k2.Value
				}
				return true
			})
			if be, isB := core.Unparen(kv.Value).(*ast.BinaryExpr); isB && hold != nil && core.ExprString(be.X) == core.ExprString(hold) {
				ok = true
			}
			return true
		})
		c.Check(ok, "restart-covers-session-settings", mk.Name()+" derives KeepAlive from the hold time", mk.Decl.Pos(), "KeepAlive is no longer derived from the same value as HoldTime: its exemption from the restart decision is unfounded")
	}

	// (2) shape of the comparisons
	pcObj, xObj := core.RecvObj(needs), core.ParamObj(needs, 0)
	nCmp := 0
	ast.Inspect(needs.Decl.Body, func(n ast.Node) bool {
		be, ok := n.(*ast.BinaryExpr)
		if !ok || (be.Op != token.NEQ && be.Op != token.EQL) {
			return true
		}
		lf, rf := core.FieldOf(needs.Pkg, be.X), core.FieldOf(needs.Pkg, be.Y)
		if lf == nil || rf == nil || isCfgField[lf] == "" {
			return true
		}
		nCmp++
		construct := fmt.Sprintf("%s comparison of %s", needs.Name(), isCfgField[lf])
		c.Check(lf == rf && cfgRoot(needs, be.X) != cfgRoot(needs, be.Y), "restart-compares-like-with-like", construct, be.Pos(),
			fmt.Sprintf("the old configuration's %s is compared with the new configuration's %s: a change of %s alone is not noticed (or an unrelated difference forces restarts)", isCfgField[lf], isCfgField[rf], isCfgField[lf]))
		// guards on one side only
		for _, ft := range core.CtlFactsAt(needs, be) {
			if ft.Expr == nil || !ft.Enclosing {
				continue
			}
			mentionsPC, mentionsX := core.MentionsObj(needs.Pkg, ft.Expr, pcObj), core.MentionsObj(needs.Pkg, ft.Expr, xObj)
			c.Check(mentionsPC == mentionsX, "restart-compares-like-with-like", construct+" is not conditional on one configuration only", be.Pos(),
				"the comparison only happens when a condition on "+map[bool]string{true: "the old", false: "the new"}[mentionsPC]+" configuration alone holds ("+core.ExprString(ft.Expr)+"): turning the feature on (or off) by a reload is not noticed")
		}
		return true
	})
	c.Check(nCmp >= 10, "restart-compares-like-with-like", "comparisons in NeedsRestart", needs.Decl.Pos(), fmt.Sprintf("found %d, floor 10", nCmp))

	// (3) in-place policy replacement on every non-error path of the no-restart branch
	for _, m := range []string{"ReplaceImportFilterChain", "ReplaceExportFilterChain"} {
		method := m
		gate := func(n ast.Node) bool {
			return core.NodeHas(n, func(x ast.Node) bool {
				call, ok := x.(*ast.CallExpr)
				if !ok {
					return false
				}
				se, isSel := call.Fun.(*ast.SelectorExpr)
				return isSel && se.Sel.Name == method
			})
		}
		rets, implicit := core.ExitsWithout(p.CFG(reconf), gate)
		bad := implicit
		for _, r := range rets {
			// allowed: the restart branch (return c.replaceSession(...)) and error returns
			if len(r.Results) == 1 {
				if call, ok := core.Unparen(r.Results[0]).(*ast.CallExpr); ok {
					if cal := core.Callee(reconf.Pkg, call); cal != nil && (cal.Name() == "replaceSession" || cal.Name() == "Errorf") {
						continue
					}
				}
			}
			bad = true
		}
		c.Check(!bad, "policy-replaced-in-place", reconf.Name()+" calls "+method+" whenever the session is kept", reconf.Decl.Pos(),
			"a kept session can come out of a reload without its "+method[7:]+" having been replaced by the configured one: the session keeps the old policy, unlike a fresh start")
	}

	// (4) diff structure
	if conf := c.MustFunc("cmd/bio-rd.(*bgpConfigurator).configure"); conf != nil {
		okEach, okRemoved := false, false
		ast.Inspect(conf.Decl.Body, func(n ast.Node) bool {
			if rs, ok := n.(*ast.RangeStmt); ok {
				for _, call := range core.Calls(conf.Pkg, rs.Body, core.KeyIs("cmd/bio-rd.(*bgpConfigurator).configureSession")) {
					_ = call
					okEach = true
				}
			}
			return true
		})
		okRemoved = len(core.Calls(conf.Pkg, conf.Decl.Body, core.KeyIs("cmd/bio-rd.(*bgpConfigurator).deconfigureRemovedSessions"))) > 0
		c.Check(okEach && okRemoved, "peer-diff", conf.Name()+" configures every neighbor and removes the others", conf.Decl.Pos(), "configure no longer visits every configured neighbor or no longer removes sessions that left the configuration")
	}
	if dec := c.MustFunc("cmd/bio-rd.(*bgpConfigurator).deconfigureRemovedSessions"); dec != nil {
		ok := false
		for _, call := range core.Calls(dec.Pkg, dec.Decl.Body, func(o *types.Func) bool { return o.Name() == "DisposePeer" }) {
			for _, ft := range core.CtlFactsAt(dec, call) {
				if cl := core.CallOf(dec, ft.Expr); cl != nil && !ft.Truth {
					if cal := core.Callee(dec.Pkg, cl); cal != nil && cal.Name() == "peerExistsInConfig" {
						ok = true
					}
				}
			}
		}
		c.Check(ok, "peer-diff", dec.Name()+" disposes exactly the peers that are not in the configuration", dec.Decl.Pos(), "DisposePeer is not control-dependent on `peer not in the new configuration`")
	}
	if cs := c.MustFunc("cmd/bio-rd.(*bgpConfigurator).configureSession"); cs != nil {
		add := len(core.Calls(cs.Pkg, cs.Decl.Body, func(o *types.Func) bool { return o.Name() == "AddPeer" })) > 0
		re := len(core.Calls(cs.Pkg, cs.Decl.Body, core.KeyIs("cmd/bio-rd.(*bgpConfigurator).reconfigureModifiedSession"))) > 0
		c.Check(add && re, "peer-diff", cs.Name()+" adds new neighbors and reconfigures existing ones", cs.Decl.Pos(), "a configured neighbor is neither added nor reconfigured")
	}
}

func cfgRoot(f *core.Fn, e ast.Expr) types.Object {
	e = core.Unparen(e)
	for {
		se, ok := e.(*ast.SelectorExpr)
		if !ok {
			break
		}
		e = core.Unparen(se.X)
	}
	return core.ObjOf(f.Pkg, e)
}
