package props

import (
	"fmt"
	"go/ast"
	"go/token"
	"go/types"
	"strings"

	"verif/engine/core"
)

// chainEqualityIsNotCoarser: a reload skips replacing a filter chain that "equals" the running one.  The equality
// functions behind Chain.Equal must therefore never call two different policies equal.  Two shapes make an equality
// coarser than the data it compares, and are reported wherever they occur in the functions reachable from Chain.Equal:
//
//	(a) `if d1 && d2 { return false }` with both conjuncts comparisons between the two operands — a difference in one
//	    part alone no longer makes the values unequal;
//	(b) a comparison of projections of one field (x.F.M() != y.F.M(), M not itself an equality) — only a part of the
//	    field's value is compared (two prefixes with the same base address and different lengths, …).
func chainEqualityIsNotCoarser(c *core.Ctx) {
	const rule = "chain-equality-is-not-coarser"
	p := c.P
	root := c.MustFunc("routingtable/filter.(Chain).Equal")
	if root == nil {
		return
	}
	isEqName := func(n string) bool { return n == "equal" || n == "Equal" || n == "Compare" || n == "DeepEqual" }
	nFns := 0
	// interface dispatch (PrefixMatcher.equal, Action.Equal) is not followed by ReachableFns: take every function of the
	// filter packages with an equality name as well
	seen := map[*core.Fn]bool{}
	var fns []*core.Fn
	for _, f := range p.ReachableFns(root) {
		if !seen[f] {
			seen[f] = true
			fns = append(fns, f)
		}
	}
	for _, rel := range []string{"routingtable/filter", "routingtable/filter/actions"} {
		for _, f := range p.FuncsIn(rel) {
			if !seen[f] && isEqName(f.Decl.Name.Name) {
				seen[f] = true
				fns = append(fns, f)
			}
		}
	}
	for _, f := range fns {
		if f.Decl.Body == nil || isTestFn(p, f) || !isEqName(f.Decl.Name.Name) || !strings.Contains(f.Pkg.PkgPath, "routingtable/filter") {
			continue
		}
		nFns++
		c.Analysed(f)
		recv := recvObj(f)
		// the other operand: parameters, and locals defined from a parameter (type assertions)
		other := map[types.Object]bool{}
		sig := f.Obj.Type().(*types.Signature)
		for i := 0; i < sig.Params().Len(); i++ {
			other[sig.Params().At(i)] = true
		}
		sideOf := func(e ast.Expr) int { // 1 receiver, 2 other, 0 neither/both
			r, o := false, false
			ast.Inspect(e, func(n ast.Node) bool {
				if id, ok := n.(*ast.Ident); ok {
					ob := core.ObjOf(f.Pkg, id)
					if ob != nil && ob == recv {
						r = true
					}
					if ob != nil && other[ob] {
						o = true
					}
					if ob != nil && !other[ob] && ob != recv {
						for _, d := range core.DefsOf(f, ob) {
							ast.Inspect(d, func(m ast.Node) bool {
								if id2, ok := m.(*ast.Ident); ok && other[core.ObjOf(f.Pkg, id2)] {
									o = true
								}
								return true
							})
						}
					}
				}
				return true
			})
			switch {
			case r && !o:
				return 1
			case o && !r:
				return 2
			}
			return 0
		}
		isCrossCmp := func(e ast.Expr) bool {
			e = core.Unparen(e)
			if u, ok := e.(*ast.UnaryExpr); ok && u.Op == token.NOT {
				e = core.Unparen(u.X)
			}
			switch x := e.(type) {
			case *ast.BinaryExpr:
				if x.Op == token.NEQ || x.Op == token.EQL {
					a, b := sideOf(x.X), sideOf(x.Y)
					return a != 0 && b != 0 && a != b
				}
			case *ast.CallExpr:
				if se, ok := x.Fun.(*ast.SelectorExpr); ok && isEqName(se.Sel.Name) && len(x.Args) >= 1 {
					a, b := sideOf(se.X), sideOf(x.Args[0])
					return a != 0 && b != 0 && a != b
				}
			}
			return false
		}
		var conj func(e ast.Expr) []ast.Expr
		conj = func(e ast.Expr) []ast.Expr {
			e = core.Unparen(e)
			if be, ok := e.(*ast.BinaryExpr); ok && be.Op == token.LAND {
				return append(conj(be.X), conj(be.Y)...)
			}
			return []ast.Expr{e}
		}
		var disj func(e ast.Expr) []ast.Expr
		disj = func(e ast.Expr) []ast.Expr {
			e = core.Unparen(e)
			if be, ok := e.(*ast.BinaryExpr); ok && be.Op == token.LOR {
				return append(disj(be.X), disj(be.Y)...)
			}
			return []ast.Expr{e}
		}
		n := 0
		ast.Inspect(f.Decl.Body, func(nd ast.Node) bool {
			ifs, ok := nd.(*ast.IfStmt)
			if !ok {
				return true
			}
			retFalse := false
			for _, st := range ifs.Body.List {
				if r, ok := st.(*ast.ReturnStmt); ok && len(r.Results) == 1 {
					if v := core.ConstOf(f.Pkg, r.Results[0]); v != nil && v.ExactString() == "false" {
						retFalse = true
					}
				}
			}
			if !retFalse {
				return true
			}
			for _, term := range disj(ifs.Cond) {
				cs := conj(term)
				cross := 0
				for _, cj := range cs {
					if isCrossCmp(cj) {
						cross++
					}
				}
				n++
				c.Check(cross < 2, rule, fmt.Sprintf("%s difference test #%d is one comparison", f.Name(), n), term.Pos(),
					"the values are declared different only when several parts differ at once (`"+core.ExprString(term)+"`): two policies that differ in one of them compare equal, and a reload keeps the old filter chain")
			}
			return true
		})
		// (b) projections
		np := 0
		ast.Inspect(f.Decl.Body, func(nd ast.Node) bool {
			be, ok := nd.(*ast.BinaryExpr)
			if !ok || (be.Op != token.NEQ && be.Op != token.EQL) {
				return true
			}
			lc, ok1 := core.Unparen(be.X).(*ast.CallExpr)
			rc, ok2 := core.Unparen(be.Y).(*ast.CallExpr)
			if !ok1 || !ok2 {
				return true
			}
			ls, ok1 := lc.Fun.(*ast.SelectorExpr)
			rs, ok2 := rc.Fun.(*ast.SelectorExpr)
			if !ok1 || !ok2 || ls.Sel.Name != rs.Sel.Name || isEqName(ls.Sel.Name) {
				return true
			}
			lf, rf := core.FieldOf(f.Pkg, ls.X), core.FieldOf(f.Pkg, rs.X)
			if lf == nil || lf != rf {
				return true
			}
			a, b := sideOf(ls.X), sideOf(rs.X)
			if a == 0 || b == 0 || a == b {
				return true
			}
			np++
			c.Check(false, rule, fmt.Sprintf("%s compares %s whole", f.Name(), lf.Name()), be.Pos(),
				fmt.Sprintf("only the projection %s() of the field %s is compared: values that agree in it and differ elsewhere compare equal, and a reload keeps the old filter chain", ls.Sel.Name, lf.Name()))
			return true
		})
	}
	c.Check(nFns >= 10, rule, "equality functions examined", 0, fmt.Sprintf("examined %d equality functions behind Chain.Equal, floor 10", nFns))
}
