package props

import (
	"fmt"
	"go/ast"
	"go/token"
	"go/types"

	"verif/engine/core"
)

// inPlacePolicyIsNormalisedLikeAFreshStart: newPeer does not store the configured filter chains as they are, it stores
// normalise(chain) (an empty chain becomes the reject-all default).  The reload path replaces the chains of a running
// peer in place; for "reload == fresh start" every other writer of those fields — and what it hands on to the FSMs —
// has to go through the same normaliser, or a reload to "no policy" leaves an empty chain that accepts everything.
// The normaliser is not named here: it is whatever function the constructor's writes of the field go through.
func inPlacePolicyIsNormalisedLikeAFreshStart(c *core.Ctx) {
	const rule = "in-place-policy-normalised-like-fresh-start"
	p := c.P
	np := c.MustFunc(srv + ".newPeer")
	if np == nil {
		return
	}
	for _, fname := range []string{"importFilterChain", "exportFilterChain"} {
		fv := p.Field(srv, "peerAddressFamily", fname)
		if fv == nil {
			c.Check(false, rule, "peerAddressFamily."+fname, 0, "field not found")
			continue
		}
		// (1) the constructor's normaliser(s)
		norm := map[*types.Func]bool{}
		raw := 0
		ast.Inspect(np.Decl.Body, func(n ast.Node) bool {
			kv, ok := n.(*ast.KeyValueExpr)
			if !ok {
				return true
			}
			id, ok := kv.Key.(*ast.Ident)
			if !ok || np.Pkg.TypesInfo.ObjectOf(id) != types.Object(fv) {
				return true
			}
			if call, ok := core.Unparen(kv.Value).(*ast.CallExpr); ok {
				if cal := core.Callee(np.Pkg, call); cal != nil {
					norm[cal] = true
					return true
				}
			}
			raw++
			return true
		})
		if len(norm) == 0 || raw > 0 {
			// the constructor stores the configured chain as it is: nothing to agree with
			c.Check(len(norm) == 0, rule, "newPeer writes "+fname+" through one normaliser", np.Decl.Pos(), "newPeer stores "+fname+" both raw and normalised")
			continue
		}
		var isNormD func(f *core.Fn, e ast.Expr, depth int) bool
		isNormD = func(f *core.Fn, e ast.Expr, depth int) bool {
			if depth > 4 {
				return false
			}
			if call, ok := core.Unparen(e).(*ast.CallExpr); ok {
				if cal := core.Callee(f.Pkg, call); cal != nil && norm[cal] {
					return true
				}
				return false
			}
			// a local (not a parameter) all of whose definitions are normalised values
			id, ok := core.Unparen(e).(*ast.Ident)
			if !ok {
				return false
			}
			o := core.ObjOf(f.Pkg, id)
			if o == nil {
				return false
			}
			sig := f.Obj.Type().(*types.Signature)
			for i := 0; i < sig.Params().Len(); i++ {
				if sig.Params().At(i) == o {
					// a parameter: normalised when it is never re-assigned here and every call of f hands in a normalised value
					if len(core.DefsOf(f, o)) > 0 {
						return false
					}
					calls := 0
					for _, g := range p.AllFuncs() {
						if g.Decl.Body == nil {
							continue
						}
						for _, call := range core.Calls(g.Pkg, g.Decl.Body, func(fo *types.Func) bool { return fo == f.Obj }) {
							calls++
							if i >= len(call.Args) || !isNormD(g, call.Args[i], depth+1) {
								return false
							}
						}
					}
					return calls > 0
				}
			}
			defs := core.DefsOf(f, o)
			if len(defs) == 0 {
				return false
			}
			for _, d := range defs {
				if !isNormD(f, d, depth+1) {
					return false
				}
			}
			return true
		}
		isNorm := func(f *core.Fn, e ast.Expr) bool { return isNormD(f, e, 0) }
		// value is normalised at node `at`: a normaliser call, or a variable all of whose definitions are normaliser
		// calls; for a parameter the (re)definition must lie on every path from the entry to `at`
		normalisedAt := func(f *core.Fn, e ast.Expr, at ast.Node) bool {
			if isNorm(f, e) {
				return true
			}
			id, ok := core.Unparen(e).(*ast.Ident)
			if !ok {
				return false
			}
			o := core.ObjOf(f.Pkg, id)
			if o == nil {
				return false
			}
			var defNodes []ast.Node
			all := true
			ast.Inspect(f.Decl.Body, func(n ast.Node) bool {
				as, ok := n.(*ast.AssignStmt)
				if !ok || len(as.Lhs) != len(as.Rhs) {
					return true
				}
				for i, l := range as.Lhs {
					if core.ObjOf(f.Pkg, l) == o {
						if isNorm(f, as.Rhs[i]) {
							defNodes = append(defNodes, as)
						} else {
							all = false
						}
					}
				}
				return true
			})
			if !all || len(defNodes) == 0 {
				return false
			}
			isDef := func(n ast.Node) bool {
				for _, d := range defNodes {
					if n == d {
						return true
					}
				}
				return false
			}
			isAt := func(n ast.Node) bool { return core.NodeHas(n, func(x ast.Node) bool { return x == at }) }
			return len(core.PathAvoiding(p.CFG(f), isDef, isAt)) == 0
		}
		// (2) every other writer of the field
		n := 0
		for _, f := range p.FuncsIn(srv) {
			if f.Decl.Body == nil || isTestFn(p, f) || f == np {
				continue
			}
			ast.Inspect(f.Decl.Body, func(nd ast.Node) bool {
				as, ok := nd.(*ast.AssignStmt)
				if !ok || len(as.Lhs) != len(as.Rhs) {
					return true
				}
				for i, l := range as.Lhs {
					if core.FieldOf(f.Pkg, l) != fv {
						continue
					}
					n++
					c.Analysed(f)
					c.Check(normalisedAt(f, as.Rhs[i], as), rule, fmt.Sprintf("%s write #%d of %s", f.Name(), n, fname), as.Pos(),
						fmt.Sprintf("the running peer's %s is replaced by a value that did not pass through the normaliser newPeer applies to it (an empty chain becomes the reject-all default there): after a reload to `no policy` the peer accepts/announces everything, after a fresh start with the same configuration nothing", fname))
					// what is handed on to the FSMs in the same function is the same normalised value
					ast.Inspect(f.Decl.Body, func(m ast.Node) bool {
						call, ok := m.(*ast.CallExpr)
						if !ok || len(call.Args) != 1 {
							return true
						}
						cal := core.Callee(f.Pkg, call)
						if cal == nil || core.RecvName(cal) != "FSM" || cal.Name() != f.Decl.Name.Name {
							return true
						}
						c.Check(normalisedAt(f, call.Args[0], call), rule, fmt.Sprintf("%s hands the normalised %s to the FSMs", f.Name(), fname), call.Pos(),
							"the chain handed to the running FSMs is not the normalised one")
						return true
					})
				}
				return true
			})
		}
		c.Check(n >= 1, rule, "in-place writers of "+fname, 0, "no writer of the field besides the constructor found (the reload path was confirmed by hand: peer.replace…FilterChain)")
	}
}

// neighborOverridesPerDirection: a neighbor inherits its group's import and export policies and replaces EACH of them
// only when it configures that direction itself.  In BGPNeighbor.load the reset of the inherited ImportFilterChain is
// controlled by conditions on the neighbor's import list only, and the reset of ExportFilterChain by the export list
// only — a shared condition ("either is set") drops the inherited policy of the direction the neighbor did not touch,
// which a reload then installs as "no policy".
func neighborOverridesPerDirection(c *core.Ctx) {
	const rule = "policy-override-is-per-direction"
	p := c.P
	const cfg = "cmd/bio-rd/config"
	f := c.MustFunc(cfg + ".(*BGPNeighbor).load")
	if f == nil {
		return
	}
	c.Analysed(f)
	dirs := []struct{ chain, list, otherList string }{
		{"ImportFilterChain", "Import", "Export"},
		{"ExportFilterChain", "Export", "Import"},
	}
	for _, d := range dirs {
		chainF := p.Field(cfg, "BGPNeighbor", d.chain)
		otherF := p.Field(cfg, "BGPNeighbor", d.otherList)
		ownF := p.Field(cfg, "BGPNeighbor", d.list)
		if chainF == nil || otherF == nil || ownF == nil {
			c.Check(false, rule, "BGPNeighbor."+d.chain, f.Decl.Pos(), "fields not found")
			continue
		}
		n := 0
		ast.Inspect(f.Decl.Body, func(nd ast.Node) bool {
			as, ok := nd.(*ast.AssignStmt)
			if !ok || len(as.Lhs) != 1 || len(as.Rhs) != 1 || core.FieldOf(f.Pkg, as.Lhs[0]) != chainF {
				return true
			}
			if _, isLit := core.Unparen(as.Rhs[0]).(*ast.CompositeLit); !isLit {
				return true // not the reset
			}
			n++
			bad := ""
			own := false
			for _, ft := range core.CtlFactsAt(f, as) {
				if ft.Expr == nil {
					continue
				}
				if core.MentionsField(f.Pkg, ft.Expr, otherF) {
					bad = core.ExprString(ft.Expr)
				}
				if core.MentionsField(f.Pkg, ft.Expr, ownF) {
					own = true
				}
			}
			c.Check(bad == "" && own, rule, fmt.Sprintf("%s resets the inherited %s only for its own %s list", f.Name(), d.chain, d.list), as.Pos(),
				fmt.Sprintf("the inherited %s is dropped under `%s`, a condition on the neighbor's %s list: a neighbor that configures only one direction loses the group's policy of the other, and a reload installs the empty chain for it", d.chain, bad, d.otherList))
			return true
		})
		c.Check(n >= 1, rule, d.chain+" reset found", f.Decl.Pos(), "BGPNeighbor.load does not reset the inherited "+d.chain)
	}
}

// stoppedPeerStaysDown: removing a neighbor (or replacing its session) goes through peer.stop().  Its FSMs fall back to
// Idle — and Idle re-activates non-passive FSMs after the reconnect interval.  "Removed neighbors are removed" needs that
// re-activation to depend on something stop() sets: every call that starts the FSM again from idleState.run
// (FSM.activate) is controlled by a condition that reads state written by peer.stop().
func stoppedPeerStaysDown(c *core.Ctx) {
	const rule = "stopped-peer-does-not-restart-itself"
	p := c.P
	idle := c.MustFunc(srv + ".(idleState).run")
	stop := c.MustFunc(srv + ".(*peer).stop")
	act := c.MustFunc(srv + ".(*FSM).activate")
	if idle == nil || stop == nil || act == nil {
		return
	}
	c.Analysed(idle, stop)
	written := map[*types.Var]bool{}
	for _, a := range core.FieldAccesses(stop.Pkg, stop.Decl.Body) {
		if a.Write {
			written[a.Field] = true
		}
	}
	// &p.field handed to sync/atomic stores
	ast.Inspect(stop.Decl.Body, func(n ast.Node) bool {
		if call, ok := n.(*ast.CallExpr); ok {
			if cal := core.Callee(stop.Pkg, call); cal != nil && cal.Pkg() != nil && cal.Pkg().Path() == "sync/atomic" && len(call.Args) >= 1 {
				if u, ok := core.Unparen(call.Args[0]).(*ast.UnaryExpr); ok && u.Op == token.AND {
					if fv := core.FieldOf(stop.Pkg, u.X); fv != nil {
						written[fv] = true
					}
				}
			}
		}
		return true
	})
	readsStopState := func(e ast.Expr) bool {
		hit := false
		ast.Inspect(e, func(n ast.Node) bool {
			switch x := n.(type) {
			case *ast.SelectorExpr:
				if fv := core.FieldOf(idle.Pkg, x); fv != nil && written[fv] {
					hit = true
				}
			case *ast.CallExpr:
				if g := p.FnOf(core.Callee(idle.Pkg, x)); g != nil {
					for fv := range p.ReadsTransitive(g) {
						if written[fv] {
							hit = true
						}
					}
				}
			}
			return true
		})
		return hit
	}
	n := 0
	// calls of activate, also inside `go` statements
	ast.Inspect(idle.Decl.Body, func(nd ast.Node) bool {
		call, ok := nd.(*ast.CallExpr)
		if !ok || core.Callee(idle.Pkg, call) != act.Obj {
			return true
		}
		n++
		ok2 := false
		for _, ft := range core.CtlFactsAt(idle, call) {
			if ft.Expr != nil && readsStopState(ft.Expr) {
				ok2 = true
			}
		}
		c.Check(ok2, rule, fmt.Sprintf("%s re-activation #%d looks at what peer.stop() set", idle.Name(), n), call.Pos(),
			"Idle starts the FSM again after the reconnect interval without looking at anything peer.stop() writes: a neighbor removed from the configuration (DisposePeer → stop → ManualStop → Idle) reconnects by itself, and after a restart-requiring change the old peer object comes back up next to the new one")
		return true
	})
	c.Check(n >= 1, rule, "re-activation calls found", idle.Decl.Pos(), "idleState.run does not call FSM.activate")
}
