package props

import (
	"fmt"
	"go/ast"
	"go/types"
	"sort"
	"strings"

	"verif/engine/core"
)

// addedPeerComesFromNewConfiguration: every configuration handed to AddPeer by the configurator originates — through
// locals and parameters, across the configurator's own call sites — from newPeerConfig (built from the configuration
// being loaded), never from GetPeerConfig (what the running session was started with).  Swapped arguments on the way
// make a reload that needs a restart bring the session back up with the OLD settings.
func addedPeerComesFromNewConfiguration(c *core.Ctx) {
	const rule = "added-peer-comes-from-new-configuration"
	p := c.P
	const cmd = "cmd/bio-rd"
	mk := p.Func(cmd + ".(*bgpConfigurator).newPeerConfig")
	if mk == nil {
		c.Check(false, rule, "newPeerConfig", 0, "anchor not found")
		return
	}
	fns := p.FuncsIn(cmd)
	// call sites per callee
	type site struct {
		f    *core.Fn
		call *ast.CallExpr
	}
	sites := map[*types.Func][]site{}
	for _, f := range fns {
		if f.Decl.Body == nil || isTestFn(p, f) {
			continue
		}
		ast.Inspect(f.Decl.Body, func(n ast.Node) bool {
			if call, ok := n.(*ast.CallExpr); ok {
				if cal := core.Callee(f.Pkg, call); cal != nil {
					sites[cal] = append(sites[cal], site{f, call})
				}
			}
			return true
		})
	}
	var origins func(f *core.Fn, e ast.Expr, depth int, out map[string]bool)
	origins = func(f *core.Fn, e ast.Expr, depth int, out map[string]bool) {
		if depth > 6 {
			out["?depth"] = true
			return
		}
		e = core.Unparen(e)
		switch x := e.(type) {
		case *ast.StarExpr:
			origins(f, x.X, depth, out)
		case *ast.UnaryExpr:
			origins(f, x.X, depth, out)
		case *ast.CallExpr:
			if cal := core.Callee(f.Pkg, x); cal != nil {
				out[cal.Name()] = true
			} else {
				out["?call"] = true
			}
		case *ast.Ident:
			o := core.ObjOf(f.Pkg, x)
			if o == nil {
				out["?"] = true
				return
			}
			// a parameter: follow the call sites
			sig := f.Obj.Type().(*types.Signature)
			for i := 0; i < sig.Params().Len(); i++ {
				if sig.Params().At(i) == o {
					ss := sites[f.Obj]
					if len(ss) == 0 {
						out["?uncalled:"+f.Decl.Name.Name] = true
					}
					for _, s := range ss {
						if i < len(s.call.Args) {
							origins(s.f, s.call.Args[i], depth+1, out)
						}
					}
					return
				}
			}
			defs := core.DefsOf(f, o)
			if len(defs) == 0 {
				out["?undef:"+x.Name] = true
			}
			for _, d := range defs {
				origins(f, d, depth+1, out)
			}
		default:
			out["?"+fmt.Sprintf("%T", e)] = true
		}
	}
	n := 0
	for _, f := range fns {
		if f.Decl.Body == nil || isTestFn(p, f) {
			continue
		}
		for _, call := range core.CallsAll(f.Pkg, f.Decl.Body, func(o *types.Func) bool { return o.Name() == "AddPeer" }) {
			if len(call.Args) != 1 {
				continue
			}
			n++
			c.Analysed(f)
			out := map[string]bool{}
			origins(f, call.Args[0], 0, out)
			var names []string
			for k := range out {
				names = append(names, k)
			}
			sort.Strings(names)
			c.Check(len(names) == 1 && names[0] == mk.Decl.Name.Name, rule, fmt.Sprintf("%s AddPeer #%d", f.Name(), n), call.Pos(),
				"the configuration a (re)started session is added with can originate from "+strings.Join(names, ", ")+" instead of only from newPeerConfig: after a reload the session runs with settings that are not those of the loaded configuration")
		}
	}
	c.Check(n >= 2, rule, "AddPeer calls in the configurator", 0, fmt.Sprintf("found %d, confirmed by hand: configureSession and replaceSession", n))
}
