package props

import (
	"fmt"
	"go/ast"
	"go/types"

	"verif/engine/core"
)

// clientNotifiedUnderTableLock: a table tells its clients about a change (AddPath / AddPathInitialDump / RemovePath /
// ReplacePath / RefreshRoute on a RouteTableClient) while it holds its own lock — that is what orders the initial
// dump of a newly registered client against concurrent route changes.  A dump delivered from a snapshot after the
// lock was released can hand the client a path whose removal it has already been told about: the client ends up with
// a path the table no longer holds.  Rule: in every method of the table type, each such client call has the table's
// `mu` in its must-lockset (held locally or on entry at every call site of the method).
func clientNotifiedUnderTableLock(c *core.Ctx, rule, rel, typ string, floor int) {
	p := c.P
	lsets, entry := methodLocksets(p, rel, typ)
	clientIface := p.Named("routingtable", "RouteTableClient")
	notif := map[string]bool{"AddPath": true, "AddPathInitialDump": true, "RemovePath": true, "ReplacePath": true, "RefreshRoute": true}
	n := 0
	for _, m := range p.MethodsOf(rel, typ) {
		if m.Decl.Body == nil || isTestFn(p, m) {
			continue
		}
		ord := 0
		core.InspectNoLit(m.Decl.Body, func(nd ast.Node) bool {
			call, ok := nd.(*ast.CallExpr)
			if !ok {
				return true
			}
			se, ok := call.Fun.(*ast.SelectorExpr)
			if !ok || !notif[se.Sel.Name] {
				return true
			}
			t := m.Pkg.TypesInfo.TypeOf(se.X)
			if t == nil || clientIface == nil || !types.Identical(t, clientIface) {
				return true
			}
			ord++
			n++
			c.Analysed(m)
			held := classHeldAt(p, m, lsets[m], call, entry)
			c.Check(held["mu"], rule, fmt.Sprintf("%s client call #%d (%s)", m.Name(), ord, se.Sel.Name), call.Pos(),
				fmt.Sprintf("%s.%s is told about a path without the table lock held: a concurrent route change is propagated to the same client in between, so the client can receive the removal first and the stale path afterwards — it then holds a path the table does not", typ, se.Sel.Name))
			return true
		})
	}
	c.Check(n >= floor, rule, typ+" client notifications found", 0, fmt.Sprintf("found %d client notification calls in %s, floor %d", n, typ, floor))
}
