package props

import (
	"fmt"
	"go/ast"
	"go/types"
	"sort"
	"strings"

	"verif/engine/core"
)

// handWrittenCopiesAreComplete: a composite literal of a route attribute type (route.Path, route.BGPPath, route.BGPPathA)
// that takes two or more of its fields from the same-named fields of ANOTHER value of that type is a hand-written copy.
// Such a copy must name every field of the type: a field left out is silently zero in the copy — for BGPPath that is how a
// CLUSTER_LIST or an ORIGINATOR_ID is lost between the UPDATE and the Adj-RIB-In (loop detection never sees it), or a
// community list between the tables.  The generated (*T).Copy methods use `cp := *p`, which copies every field, and are
// not literals.  A literal that BUILDS a path (values not taken from same-named fields) is not a copy and is left alone.
func handWrittenCopiesAreComplete(c *core.Ctx, rule string) {
	p := c.P
	targets := map[*types.Named]bool{}
	for _, n := range []string{"Path", "BGPPath", "BGPPathA", "StaticPath", "FIBPath"} {
		if t := p.Named("route", n); t != nil {
			targets[t] = true
		}
	}
	if t := p.Named("protocols/bgp/packet", "PathAttribute"); t != nil {
		targets[t] = true
	}
	nCopies, nLits := 0, 0
	for _, f := range p.AllFuncs() {
		if f.Decl.Body == nil || strings.Contains(p.Pos(f.Decl.Pos()), "_test.go") {
			continue
		}
		ast.Inspect(f.Decl.Body, func(n ast.Node) bool {
			cl, ok := n.(*ast.CompositeLit)
			if !ok {
				return true
			}
			tv, ok := f.Pkg.TypesInfo.Types[cl]
			if !ok {
				return true
			}
			named, _ := tv.Type.(*types.Named)
			if named == nil || !targets[named] {
				return true
			}
			st, _ := named.Underlying().(*types.Struct)
			if st == nil {
				return true
			}
			nLits++
			keyed := map[string]bool{}
			fromSame := 0
			for _, el := range cl.Elts {
				kv, ok := el.(*ast.KeyValueExpr)
				if !ok {
					return true // positional literal: names every field by construction
				}
				k, _ := kv.Key.(*ast.Ident)
				if k == nil {
					continue
				}
				keyed[k.Name] = true
				// value is X.<k> or X.<k>.Copy() / copy helpers of X.<k>, with X.<k> a field of the same struct type
				found := false
				v := core.Unparen(kv.Value)
				for {
					switch x := v.(type) {
					case *ast.CallExpr: // X.k.Copy(), conv(X.k)
						if se, isSel := x.Fun.(*ast.SelectorExpr); isSel && len(x.Args) == 0 {
							v = core.Unparen(se.X)
							continue
						}
						if len(x.Args) == 1 {
							v = core.Unparen(x.Args[0])
							continue
						}
					case *ast.StarExpr:
						v = core.Unparen(x.X)
						continue
					case *ast.UnaryExpr:
						v = core.Unparen(x.X)
						continue
					}
					break
				}
				if se, isSel := v.(*ast.SelectorExpr); isSel && se.Sel.Name == k.Name {
					if fv := core.FieldOf(f.Pkg, se); fv != nil {
						for i := 0; i < st.NumFields(); i++ {
							if st.Field(i) == fv {
								found = true
							}
						}
					}
				}
				if found {
					fromSame++
				}
			}
			if fromSame < 2 {
				return true
			}
			nCopies++
			var missing []string
			for i := 0; i < st.NumFields(); i++ {
				// a link to the next element of the same type is list structure, not content: a copy of one element leaves it out
				if pt, isPtr := st.Field(i).Type().(*types.Pointer); isPtr && types.Identical(pt.Elem(), named) {
					continue
				}
				if !keyed[st.Field(i).Name()] {
					missing = append(missing, st.Field(i).Name())
				}
			}
			sort.Strings(missing)
			c.Analysed(f)
			c.Check(len(missing) == 0, rule, fmt.Sprintf("%s hand-written copy of %s.%s names every field", f.Name(), named.Obj().Pkg().Name(), named.Obj().Name()), cl.Pos(),
				fmt.Sprintf("the literal copies %d fields of another %s field by field and leaves out %s: the copy silently loses them (a CLUSTER_LIST or ORIGINATOR_ID lost here is never seen by loop detection; a list lost here is never announced)", fromSame, named.Obj().Name(), strings.Join(missing, ", ")))
			return true
		})
	}
	c.Check(nLits >= 3, rule, "literals of the route attribute types examined", 0, fmt.Sprintf("only %d composite literals of route.Path/BGPPath/BGPPathA found: the rule looks at nothing", nLits))
	_ = nCopies
}
