package props

import (
	"fmt"
	"go/ast"
	"go/token"
	"go/types"
	"strings"

	"verif/engine/core"
)

// genericAssertDischarge: type assertions outside the union tables.
func genericAssertDischarge(p *core.Prog, f *core.Fn, ta *ast.TypeAssertExpr) (bool, string) {
	asserted := f.Pkg.TypesInfo.TypeOf(ta.Type)
	if asserted == nil {
		return false, ""
	}
	// T4: dominated by a type switch / comma-ok on the same operand
	for _, ft := range core.FactsAt(f, ta) {
		if ft.TypeOf != nil && ft.Truth && core.SameExpr(f.Pkg, ft.TypeOf, ta.X) {
			all := len(ft.Types) > 0
			for _, te := range ft.Types {
				if t := f.Pkg.TypesInfo.TypeOf(te); t == nil || !types.Identical(t, asserted) {
					all = false
				}
			}
			if all {
				return true, "dominated by a type switch case on the same type"
			}
		}
	}
	// T1: same-function dominating store
	if se, ok := core.Unparen(ta.X).(*ast.SelectorExpr); ok {
		if st := lastStoreType(f, se, ta); st != "" {
			return st == asserted.String(), "dominating store of " + st
		}
	}
	// T2: v, err := g(...); err == nil ⇒ g's success returns are of the asserted type
	if obj := core.ObjOf(f.Pkg, ta.X); obj != nil {
		defs := core.DefsOf(f, obj)
		if len(defs) == 1 {
			if call, ok := core.Unparen(defs[0]).(*ast.CallExpr); ok {
				if g := p.FnOf(core.Callee(f.Pkg, call)); g != nil && g.Decl.Body != nil {
					okAll, n := true, 0
					core.InspectNoLit(g.Decl.Body, func(nd ast.Node) bool {
						ret, isRet := nd.(*ast.ReturnStmt)
						if !isRet || len(ret.Results) != 2 {
							return true
						}
						if !core.IsNilIdent(g.Pkg, ret.Results[1]) {
							// an error VALUE built on the spot (fmt.Errorf, a literal) is an error return
							if _, isId := core.Unparen(ret.Results[1]).(*ast.Ident); !isId {
								return true
							}
							// `return msg, err` where err may be nil: treat as success-capable unless under err != nil
							errNonNil := false
							for _, ft := range core.FactsAt(g, ret) {
								if x, isNil := core.IsNilCheck(g.Pkg, ft.Expr); isNil && !ft.Truth && core.ObjOf(g.Pkg, x) == core.ObjOf(g.Pkg, ret.Results[1]) {
									errNonNil = true
								}
							}
							if errNonNil {
								return true
							}
						}
						n++
						if t := g.Pkg.TypesInfo.TypeOf(ret.Results[0]); t == nil || !types.Identical(t, asserted) {
							okAll = false
						}
						return true
					})
					// the assertion must be on the err == nil side
					errNil := false
					for _, ft := range core.FactsAt(f, ta) {
						if _, isNil := core.IsNilCheck(f.Pkg, ft.Expr); isNil && ft.Truth {
							errNil = true
						}
					}
					if okAll && n > 0 && errNil {
						return true, "every success return of " + g.Name() + " has that type"
					}
				}
			}
		}
	}
	return false, ""
}

// extraAssertDischarge lets a property add its own discharge rule for type assertions (set for the duration of a run).
var extraAssertDischarge func(c *core.Ctx, f *core.Fn, ta *ast.TypeAssertExpr) (bool, string)

// extraLoopDischarge lets a property add its own termination argument for a loop form (set for the duration of a run).
var extraLoopDischarge func(c *core.Ctx, f *core.Fn, loop *ast.ForStmt) (bool, string)

// successTypes returns the static types of the first result at the success returns of g (returns whose error result
// is nil or may be nil), following one level of `x, err := h(…); return x, err`-style delegation through locals.
func successTypes(p *core.Prog, g *core.Fn) []types.Type {
	var out []types.Type
	if g == nil || g.Decl.Body == nil {
		return nil
	}
	core.InspectNoLit(g.Decl.Body, func(nd ast.Node) bool {
		ret, isRet := nd.(*ast.ReturnStmt)
		if !isRet || len(ret.Results) != 2 {
			return true
		}
		if !core.IsNilIdent(g.Pkg, ret.Results[1]) {
			if _, isId := core.Unparen(ret.Results[1]).(*ast.Ident); !isId {
				return true
			}
			for _, ft := range core.FactsAt(g, ret) {
				if x, isNil := core.IsNilCheck(g.Pkg, ft.Expr); isNil && !ft.Truth && core.ObjOf(g.Pkg, x) == core.ObjOf(g.Pkg, ret.Results[1]) {
					return true
				}
			}
		}
		if core.IsNilIdent(g.Pkg, ret.Results[0]) {
			return true
		}
		t := g.Pkg.TypesInfo.TypeOf(ret.Results[0])
		if t != nil {
			if _, isI := t.Underlying().(*types.Interface); isI {
				// a local of interface type: look at what it was defined as
				if o := core.ObjOf(g.Pkg, ret.Results[0]); o != nil {
					for _, d := range core.DefsOf(g, o) {
						if call, isC := core.Unparen(d).(*ast.CallExpr); isC {
							out = append(out, successTypes(p, p.FnOf(core.Callee(g.Pkg, call)))...)
							return true
						}
					}
				}
			}
			out = append(out, t)
		}
		return true
	})
	return out
}

// decoderScope runs the panic / memory / time clauses over the functions reachable from the roots, restricted to inScope.
func decoderScope(c *core.Ctx, prefix string, roots []*core.Fn, inScope func(*core.Fn) bool, unions []*unionTable) (nFns, nOps int) {
	p := c.P
	var fns []*core.Fn
	for _, f := range p.ReachableFns(roots...) {
		if inScope(f) {
			fns = append(fns, f)
		}
	}
	c.Analysed(fns...)
	unionVal := map[*types.Var]*unionTable{}
	for _, t := range unions {
		if t != nil {
			unionVal[t.valF] = t
		}
	}
	linWhy := map[ast.Node]string{}
	for _, f := range fns {
		for _, o := range core.PanicOps(f) {
			construct := fmt.Sprintf("%s %s #%d %s", f.Name(), o.Kind, o.Ord, exprOfNode(o.Node))
			nOps++
			switch o.Kind {
			case "index", "slice":
				if ok, why := p.DischargeIndexSlice(o); ok {
					c.Hold(prefix+"no-panic", construct, o.Node.Pos(), why)
					continue
				}
				if ok, why, as := p.LinearDischarge(f, o.Node); ok {
					if len(as) > 0 {
						why += "; assuming: " + strings.Join(as, "; ")
					}
					c.Hold(prefix+"no-panic", construct, o.Node.Pos(), why)
					continue
				} else if why != "" {
					linWhy[o.Node] = why
				}
				c.Fail(prefix+"no-panic", construct, o.Node.Pos(), "index/slice operation on input-derived data without a dominating bound (constant index into a fixed-size value, loop index bounded by the length, tested length) and the linear bounds analysis does not prove it either ("+linWhy[o.Node]+"): out-of-range input panics, and the daemon has no recover")
			case "shift":
				if ok, why, as := p.LinearDischarge(f, o.Node); ok {
					if len(as) > 0 {
						why += "; assuming: " + strings.Join(as, "; ")
					}
					c.Hold(prefix+"no-panic", construct, o.Node.Pos(), why)
					continue
				} else {
					c.Fail(prefix+"no-panic", construct, o.Node.Pos(), "shift by a signed count that is not shown to be non-negative ("+why+"): a negative count panics (e.g. `32 - int(len)` for a length above 32 that an earlier conversion let through)")
				}
			case "type-assert":
				ta := o.Node.(*ast.TypeAssertExpr)
				if vs, ok := core.Unparen(ta.X).(*ast.SelectorExpr); ok {
					if _, isUnion := unionVal[core.FieldOf(f.Pkg, vs)]; isUnion {
						continue // decided by the producer/consumer table
					}
				}
				ok, why := genericAssertDischarge(p, f, ta)
				if !ok && extraAssertDischarge != nil {
					ok, why = extraAssertDischarge(c, f, ta)
					if ok {
						c.Hold(prefix+"no-panic", construct, o.Node.Pos(), why)
						continue
					}
				}
				c.Check(ok, prefix+"no-panic", construct, o.Node.Pos(), "unchecked type assertion whose operand's dynamic type is not fixed by a dominating store, type switch or the callee's success returns"+why)
			case "div":
				be := o.Node.(*ast.BinaryExpr)
				okD := false
				for _, ft := range core.FactsAt(f, be) {
					if b2, isB := ft.Expr.(*ast.BinaryExpr); isB && b2.Op == token.EQL && !ft.Truth && core.SameExpr(f.Pkg, b2.X, be.Y) {
						if v := core.ConstOf(f.Pkg, b2.Y); v != nil && v.ExactString() == "0" {
							okD = true
						}
					}
				}
				c.Check(okD, prefix+"no-panic", construct, o.Node.Pos(), "integer division by a non-constant without a dominating `≠ 0` test")
			case "panic":
				c.Fail(prefix+"no-panic", construct, o.Node.Pos(), "explicit panic reachable from the decoder entry point")
			case "nil-map-store":
				c.Hold(prefix+"no-panic", construct, o.Node.Pos(), "map store (maps in scope are made before use; not tracked further)")
			}
		}
	}
	for _, t := range unions {
		if t != nil {
			nOps += checkUnionConsumers(c, prefix+"union-type-agreement", t, fns)
		}
	}
	// memory: every make() size is a constant, of a ≤ 16-bit type, or derived from len() of data already received
	for _, f := range fns {
		ord := 0
		ast.Inspect(f.Decl.Body, func(n ast.Node) bool {
			call, ok := n.(*ast.CallExpr)
			if !ok {
				return true
			}
			// allocation sinks: make(T, n[, m]) and the library calls that reserve n bytes/elements up front
			var sizes []ast.Expr
			sink := "make"
			if id, ok := call.Fun.(*ast.Ident); ok && id.Name == "make" && len(call.Args) >= 2 {
				if _, isB := f.Pkg.TypesInfo.Uses[id].(*types.Builtin); isB {
					sizes = call.Args[1:]
				}
			} else if callee := core.Callee(f.Pkg, call); callee != nil {
				switch core.FuncKey(callee) {
				case "bytes.(*Buffer).Grow", "strings.(*Builder).Grow":
					sizes, sink = call.Args, "Grow"
				case "slices.Grow":
					if len(call.Args) == 2 {
						sizes, sink = call.Args[1:], "Grow"
					}
				}
			}
			if len(sizes) == 0 {
				return true
			}
			for _, sz := range sizes {
				ord++
				construct := fmt.Sprintf("%s %s #%d size %s", f.Name(), sink, ord, core.ExprString(sz))
				ok, why := boundedSize(p, f, sz, 0)
				if ok {
					if bad := unguardedSubtraction(f, sz); bad != "" {
						c.Fail(prefix+"bounded-allocation", construct, sz.Pos(), "the size contains the subtraction "+bad+" of input-derived values without a dominating test that the minuend is large enough: when it is not, the result is negative (make panics) or wraps around to gigabytes")
						continue
					}
				}
				c.Check(ok, prefix+"bounded-allocation", construct, sz.Pos(), "allocation size is input-derived, wider than 16 bits and not bounded by the bytes actually received (a dominating comparison with len()/a constant): a 4-octet length or count field makes the receiver allocate up to 4 GiB before a single body byte arrives"+why)
			}
			return true
		})
	}
	// time/memory: no string is grown by concatenation inside a loop (each `s += x` copies all of s: a message with n
	// elements costs n² — out of proportion to the bytes received)
	for _, f := range fns {
		ord := 0
		var visit func(n ast.Node, inLoop bool)
		visit = func(n ast.Node, inLoop bool) {
			ast.Inspect(n, func(m ast.Node) bool {
				if m == n {
					return true
				}
				switch x := m.(type) {
				case *ast.ForStmt:
					visit(x.Body, true)
					return false
				case *ast.RangeStmt:
					// a range over an array or a constant is bounded by the program, not by the input
					if t := f.Pkg.TypesInfo.TypeOf(x.X); t != nil {
						if _, isArr := t.Underlying().(*types.Array); isArr {
							visit(x.Body, inLoop)
							return false
						}
					}
					visit(x.Body, true)
					return false
				case *ast.FuncLit:
					return false
				case *ast.AssignStmt:
					if !inLoop || len(x.Lhs) != 1 || len(x.Rhs) != 1 {
						return true
					}
					lt := f.Pkg.TypesInfo.TypeOf(x.Lhs[0])
					b, isBasic := lt.Underlying().(*types.Basic)
					if lt == nil || !isBasic || b.Info()&types.IsString == 0 {
						return true
					}
					grows := x.Tok == token.ADD_ASSIGN
					if x.Tok == token.ASSIGN {
						if be, ok := core.Unparen(x.Rhs[0]).(*ast.BinaryExpr); ok && be.Op == token.ADD && core.SameExpr(f.Pkg, core.Unparen(be.X), core.Unparen(x.Lhs[0])) {
							grows = true
						}
					}
					if !grows {
						return true
					}
					// declared inside the loop: it does not accumulate across iterations
					if o := core.ObjOf(f.Pkg, x.Lhs[0]); o != nil {
						if lp := enclosingLoop(f, x); lp != nil && o.Pos() >= lp.Pos() && o.Pos() < lp.End() {
							return true
						}
					}
					ord++
					c.Fail(prefix+"linear-accumulation", fmt.Sprintf("%s string accumulation #%d `%s`", f.Name(), ord, core.ExprString(x.Lhs[0])), x.Pos(),
						"a string is extended by concatenation on every iteration of an input-driven loop: each step copies the whole string, so n elements cost n² bytes of copying — a 64 KB message of empty TLVs keeps the receiver busy for seconds, a larger one wedges it")
				}
				return true
			})
		}
		visit(f.Decl.Body, false)
	}
	// time: every loop is a range, a bounded counter, or consumes input on every iteration
	for _, f := range fns {
		ord := 0
		ast.Inspect(f.Decl.Body, func(n ast.Node) bool {
			loop, ok := n.(*ast.ForStmt)
			if !ok {
				return true
			}
			ord++
			construct := fmt.Sprintf("%s loop #%d", f.Name(), ord)
			ok2, why := loopTerminates(p, f, loop)
			if !ok2 && extraLoopDischarge != nil {
				if ok3, why3 := extraLoopDischarge(c, f, loop); ok3 {
					c.Hold(prefix+"bounded-loop", construct, loop.Pos(), why3)
					return true
				}
			}
			c.Check(ok2, prefix+"bounded-loop", construct, loop.Pos(), "loop whose bound comes from the input is not of a recognised terminating form (counter towards a ≤ 16-bit/constant bound, decreasing counter, or every iteration consumes input and stops on a read error)"+why)
			return true
		})
	}
	return len(fns), nOps
}

func exprOfNode(n ast.Node) string {
	if e, ok := n.(ast.Expr); ok {
		return "`" + core.ExprString(e) + "`"
	}
	return ""
}

// unguardedSubtraction returns the text of a subtraction `a - k…` inside a make() size whose minuend is not constant and
// for which no dominating fact gives minuend ≥ the sum of the (constant) subtrahends.
func unguardedSubtraction(f *core.Fn, sz ast.Expr) string {
	bad := ""
	var visit func(e ast.Expr)
	visit = func(e ast.Expr) {
		e = core.Unparen(e)
		switch x := e.(type) {
		case *ast.BinaryExpr:
			if x.Op == token.SUB {
				// flatten a - b - c
				var subs []ast.Expr
				min := ast.Expr(x)
				for {
					be, ok := core.Unparen(min).(*ast.BinaryExpr)
					if !ok || be.Op != token.SUB {
						break
					}
					subs = append(subs, be.Y)
					min = be.X
				}
				if core.ConstOf(f.Pkg, min) != nil {
					// constant minus variable: needs variable ≤ constant — treated like the general case below
				}
				sum, allConst := int64(0), true
				for _, sb := range subs {
					v := core.ConstOf(f.Pkg, sb)
					if v == nil {
						allConst = false
						continue
					}
					var k int64
					fmt.Sscan(v.ExactString(), &k)
					sum += k
				}
				if core.ConstOf(f.Pkg, min) != nil && allConst {
					return
				}
				guarded := false
				ms := core.ExprString(stripConversions(f, min))
				// the minuend may be a local defined from the compared expression
				alt := ""
				if o := core.ObjOf(f.Pkg, stripConversions(f, min)); o != nil {
					if ds := core.DefsOf(f, o); len(ds) == 1 {
						alt = core.ExprString(stripConversions(f, ds[0]))
					}
				}
				for _, ft := range core.FactsAt(f, sz) {
					be, ok := ft.Expr.(*ast.BinaryExpr)
					if !ok {
						continue
					}
					l, r, op := be.X, be.Y, be.Op
					ls := core.ExprString(stripConversions(f, l))
					if ls != ms && (alt == "" || ls != alt) {
						continue
					}
					lower := (op == token.LSS && !ft.Truth) || (op == token.GEQ && ft.Truth)
					strict := (op == token.LEQ && !ft.Truth) || (op == token.GTR && ft.Truth)
					if !lower && !strict {
						continue
					}
					if v := core.ConstOf(f.Pkg, r); v != nil && allConst {
						var k int64
						fmt.Sscan(v.ExactString(), &k)
						if strict {
							k++
						}
						if k >= sum {
							guarded = true
						}
					}
					if !allConst && len(subs) == 1 && core.ExprString(stripConversions(f, r)) == core.ExprString(stripConversions(f, subs[0])) {
						guarded = true
					}
				}
				if !guarded {
					bad = core.ExprString(x)
				}
				return
			}
			visit(x.X)
			visit(x.Y)
		case *ast.CallExpr:
			for _, a := range x.Args {
				visit(a)
			}
		}
	}
	visit(sz)
	return bad
}

func stripConversions(f *core.Fn, x ast.Expr) ast.Expr {
	for {
		x = core.Unparen(x)
		call, ok := x.(*ast.CallExpr)
		if !ok || len(call.Args) != 1 {
			return x
		}
		if tv, isT := f.Pkg.TypesInfo.Types[call.Fun]; !isT || !tv.IsType() {
			return x
		}
		x = call.Args[0]
	}
}

// boundedSize: constant, ≤16-bit typed, len()-derived, or a local all of whose definitions are.
func boundedSize(p *core.Prog, f *core.Fn, e ast.Expr, depth int) (bool, string) {
	e = core.Unparen(e)
	if core.ConstOf(f.Pkg, e) != nil {
		return true, "constant"
	}
	if depth > 5 {
		return false, ""
	}
	// a dominating upper-bound test of this very expression (through integer conversions) against something bounded
	strip := func(x ast.Expr) ast.Expr {
		for {
			x = core.Unparen(x)
			call, ok := x.(*ast.CallExpr)
			if !ok || len(call.Args) != 1 {
				return x
			}
			if tv, isT := f.Pkg.TypesInfo.Types[call.Fun]; !isT || !tv.IsType() {
				return x
			}
			x = call.Args[0]
		}
	}
	if depth == 0 {
		es := core.ExprString(strip(e))
		for _, ft := range core.FactsAt(f, e) {
			be, ok := ft.Expr.(*ast.BinaryExpr)
			if !ok {
				continue
			}
			if core.ExprString(strip(be.X)) == es && ((be.Op == token.GTR && !ft.Truth) || (be.Op == token.LEQ && ft.Truth) || (be.Op == token.LSS && ft.Truth) || (be.Op == token.GEQ && !ft.Truth)) {
				if ok2, _ := boundedSize(p, f, be.Y, 1); ok2 {
					return true, "dominated by an upper-bound test against the bytes received"
				}
			}
		}
	}
	t := f.Pkg.TypesInfo.TypeOf(e)
	if t != nil {
		if b, ok := t.Underlying().(*types.Basic); ok {
			switch b.Kind() {
			case types.Uint8, types.Uint16, types.Int8, types.Int16:
				return true, "≤ 16-bit type"
			}
		}
	}
	switch x := e.(type) {
	case *ast.CallExpr:
		if id, ok := x.Fun.(*ast.Ident); ok && (id.Name == "len" || id.Name == "cap") {
			return true, "length of data already in memory"
		}
		if tv, ok := f.Pkg.TypesInfo.Types[x.Fun]; ok && tv.IsType() && len(x.Args) == 1 {
			return boundedSize(p, f, x.Args[0], depth+1)
		}
		if se, ok := x.Fun.(*ast.SelectorExpr); ok && (se.Sel.Name == "Len" || se.Sel.Name == "SizeBytes" || se.Sel.Name == "BytesInPrefix") {
			return true, "length accessor"
		}
		if cal := core.Callee(f.Pkg, x); cal != nil && (cal.Name() == "BytesInAddr" || cal.Name() == "Min") {
			return true, "bounded helper"
		}
	case *ast.BinaryExpr:
		a, _ := boundedSize(p, f, x.X, depth+1)
		b, _ := boundedSize(p, f, x.Y, depth+1)
		switch x.Op {
		case token.ADD, token.SUB, token.QUO, token.REM, token.AND, token.SHR:
			return a && b, "arithmetic on bounded operands"
		case token.MUL:
			// scaling by a small constant keeps a 16-bit quantity within a few hundred KiB
			for _, side := range []ast.Expr{x.X, x.Y} {
				if v := core.ConstOf(f.Pkg, side); v != nil {
					var k int64
					fmt.Sscan(v.ExactString(), &k)
					if k >= 0 && k <= 16 {
						return a && b, "bounded operand scaled by a small constant"
					}
				}
			}
		}
		return false, ""
	case *ast.IndexExpr:
		// lookup in a constant table
		if obj := core.ObjOf(f.Pkg, x.X); obj != nil && obj.Parent() == f.Pkg.Types.Scope() {
			return true, "package-level table lookup"
		}
	case *ast.Ident:
		obj := core.ObjOf(f.Pkg, x)
		if obj == nil {
			return false, ""
		}
		// a dominating comparison against a constant / len
		for _, ft := range core.FactsAt(f, e) {
			be, ok := ft.Expr.(*ast.BinaryExpr)
			if !ok || core.ObjOf(f.Pkg, be.X) != obj {
				continue
			}
			if (be.Op == token.GTR && !ft.Truth) || (be.Op == token.LEQ && ft.Truth) || (be.Op == token.LSS && ft.Truth) || (be.Op == token.GEQ && !ft.Truth) {
				if ok2, _ := boundedSize(p, f, be.Y, depth+1); ok2 {
					return true, "dominated by an upper-bound test"
				}
			}
		}
		defs := core.DefsOf(f, obj)
		if len(defs) == 0 {
			return false, ""
		}
		for _, d := range defs {
			if ok, _ := boundedSize(p, f, d, depth+1); !ok {
				return false, ""
			}
		}
		return true, "all definitions bounded"
	case *ast.SelectorExpr:
		// field of a struct: bounded by type only (checked above)
	}
	return false, ""
}

var readFuncs = map[string]bool{"(*bytes.Buffer).ReadByte": true, "encoding/binary.Read": true, "io.ReadFull": true}

func isProgressCall(p *core.Prog, f *core.Fn, call *ast.CallExpr, depth int) bool {
	cal := core.Callee(f.Pkg, call)
	if cal == nil {
		return false
	}
	full := cal.FullName()
	if readFuncs[full] || strings.HasSuffix(full, "bytes.Buffer).ReadByte") {
		return true
	}
	// the repository's field decoders read every listed field with binary.Read: progress iff the field list is a
	// non-empty literal (directly or through a local defined once)
	if strings.HasSuffix(full, "util/decode.Decode") || strings.HasSuffix(full, "util/decoder.Decode") {
		if len(call.Args) == 2 {
			arg := core.Unparen(call.Args[1])
			if id, ok := arg.(*ast.Ident); ok {
				// every definition of the field list is a non-empty literal
				defs := core.DefsOf(f, core.ObjOf(f.Pkg, id))
				all := len(defs) > 0
				for _, d := range defs {
					if cl, isCL := core.Unparen(d).(*ast.CompositeLit); !isCL || len(cl.Elts) == 0 {
						all = false
					}
				}
				if all {
					return true
				}
			}
			if cl, ok := arg.(*ast.CompositeLit); ok && len(cl.Elts) > 0 {
				return true
			}
		}
		return false
	}
	if strings.HasSuffix(full, "bytes.Buffer).Read") || strings.HasSuffix(full, "bytes.Buffer).Next") {
		// progress iff the destination has a constant non-zero length
		if len(call.Args) == 1 {
			if n, ok := staticLenOf(p, f, call.Args[0]); ok && n > 0 {
				return true
			}
			if v := core.ConstOf(f.Pkg, call.Args[0]); v != nil && v.ExactString() != "0" {
				return true
			}
		}
		return false
	}
	if depth > 5 {
		return false
	}
	g := p.FnOf(cal)
	if g == nil || g.Decl.Body == nil {
		return false
	}
	// callee makes progress on every returning path (error returns after a failed read count: the loop stops there)
	return alwaysProgress(p, g, depth+1)
}

func staticLenOf(p *core.Prog, f *core.Fn, e ast.Expr) (int64, bool) {
	o := core.PCO{Kind: "index", Node: &ast.IndexExpr{X: e, Index: &ast.BasicLit{Kind: token.INT, Value: "0"}}, Fn: f}
	_ = o
	// reuse staticLen through DischargeIndexSlice is awkward; small local version
	switch x := core.Unparen(e).(type) {
	case *ast.Ident:
		obj := core.ObjOf(f.Pkg, x)
		defs := core.DefsOf(f, obj)
		if len(defs) == 1 {
			return staticLenOf(p, f, defs[0])
		}
	case *ast.CallExpr:
		if id, ok := x.Fun.(*ast.Ident); ok && id.Name == "make" && len(x.Args) >= 2 {
			if v := core.ConstOf(f.Pkg, x.Args[1]); v != nil {
				var n int64
				fmt.Sscan(v.ExactString(), &n)
				return n, true
			}
		}
	case *ast.SliceExpr:
		if t := f.Pkg.TypesInfo.TypeOf(x.X); t != nil {
			if a, ok := t.Underlying().(*types.Array); ok && x.Low == nil && x.High == nil {
				return a.Len(), true
			}
		}
	}
	return 0, false
}

// alwaysProgress: every path from entry to a return passes a progress call (directly or in a callee).
func alwaysProgress(p *core.Prog, g *core.Fn, depth int) bool {
	if depth > 5 {
		return false
	}
	gate := func(n ast.Node) bool {
		return core.NodeHas(n, func(x ast.Node) bool {
			cl, ok := x.(*ast.CallExpr)
			return ok && isProgressCall(p, g, cl, depth+1)
		})
	}
	rets, end := core.ExitsWithout(p.CFG(g), gate)
	return len(rets) == 0 && !end
}

func loopTerminates(p *core.Prog, f *core.Fn, loop *ast.ForStmt) (bool, string) {
	// counted up: for i := a; i < n; i++   with n bounded
	if cond, ok := loop.Cond.(*ast.BinaryExpr); ok {
		if inc, ok := loop.Post.(*ast.IncDecStmt); ok && inc.Tok == token.INC && (cond.Op == token.LSS || cond.Op == token.LEQ) && core.SameExpr(f.Pkg, inc.X, cond.X) {
			if ok, _ := boundedSize(p, f, cond.Y, 0); ok {
				return true, "counter towards a bounded limit"
			}
		}
		// counted down by a constant: for ; x >= K; x -= K
		if as, ok := loop.Post.(*ast.AssignStmt); ok && as.Tok == token.SUB_ASSIGN && (cond.Op == token.GEQ || cond.Op == token.GTR) && core.SameExpr(f.Pkg, as.Lhs[0], cond.X) {
			if v := core.ConstOf(f.Pkg, as.Rhs[0]); v != nil && v.ExactString() != "0" {
				return true, "decreasing counter"
			}
		}
		if dec, ok := loop.Post.(*ast.IncDecStmt); ok && dec.Tok == token.DEC && (cond.Op == token.GEQ || cond.Op == token.GTR) && core.SameExpr(f.Pkg, dec.X, cond.X) {
			return true, "decreasing counter"
		}
	}
	// walk of a nil-terminated linked list: for x := h; x != nil; x = x.Next (lists in scope are built by appending freshly
	// allocated nodes while input is consumed, so they are finite and acyclic)
	if cond, ok := loop.Cond.(*ast.BinaryExpr); ok && cond.Op == token.NEQ && core.IsNilIdent(f.Pkg, cond.Y) {
		if as, isAs := loop.Post.(*ast.AssignStmt); isAs && len(as.Lhs) == 1 && len(as.Rhs) == 1 && core.SameExpr(f.Pkg, as.Lhs[0], cond.X) {
			if se, isSel := core.Unparen(as.Rhs[0]).(*ast.SelectorExpr); isSel && core.SameExpr(f.Pkg, se.X, cond.X) && core.FieldOf(f.Pkg, se) != nil {
				return true, "walk of a nil-terminated list"
			}
		}
	}
	// consuming loop: every path through the body back to the head passes a progress call
	g := p.CFG(f)
	inBody := func(n ast.Node) bool { return n.Pos() >= loop.Body.Pos() && n.End() <= loop.Body.End() }
	progress := func(n ast.Node) bool {
		if !inBody(n) {
			return false
		}
		return core.NodeHas(n, func(x ast.Node) bool {
			cl, ok := x.(*ast.CallExpr)
			return ok && isProgressCall(p, f, cl, 0)
		})
	}
	// find the first cfg node of the body and check whether the loop head can be re-reached from it avoiding progress
	var first ast.Node
	for _, b := range g.Blocks {
		for _, n := range b.Nodes {
			if inBody(n) && (first == nil || n.Pos() < first.Pos()) {
				first = n
			}
		}
	}
	if first == nil {
		return false, ""
	}
	// walk from the first body node; if we can come back to `first` without a progress node, the loop may spin
	spin := false
	seen := map[ast.Node]bool{}
	var blocksOf = map[ast.Node]int{}
	_ = blocksOf
	type pos struct {
		b int
		i int
	}
	var start pos
	for bi, b := range g.Blocks {
		for ni, n := range b.Nodes {
			if n == first {
				start = pos{bi, ni}
			}
		}
	}
	var walk func(bi, ni int, fresh bool)
	visitedBlocks := map[int]bool{}
	walk = func(bi, ni int, fresh bool) {
		b := g.Blocks[bi]
		for i := ni; i < len(b.Nodes); i++ {
			n := b.Nodes[i]
			if n == first && !fresh {
				spin = true
				return
			}
			fresh = false
			if seen[n] && n != first {
				// continue; blocks guard recursion
			}
			seen[n] = true
			if progress(n) {
				return
			}
			if _, isRet := n.(*ast.ReturnStmt); isRet {
				return
			}
		}
		for _, s := range b.Succs {
			if visitedBlocks[int(s.Index)] && !(int(s.Index) == start.b) {
				continue
			}
			if int(s.Index) == start.b {
				// re-entering the block of `first`: check from its beginning up to first
				blk := g.Blocks[start.b]
				reached := true
				for i := 0; i < start.i; i++ {
					if progress(blk.Nodes[i]) {
						reached = false
					}
				}
				if reached {
					spin = true
				}
				continue
			}
			visitedBlocks[int(s.Index)] = true
			walk(int(s.Index), 0, false)
		}
	}
	visitedBlocks[start.b] = true
	walk(start.b, start.i, true)
	if !spin {
		return true, "every iteration consumes input (or returns)"
	}
	return false, ""
}

// enclosingLoop returns the innermost for/range statement containing n.
func enclosingLoop(f *core.Fn, n ast.Node) ast.Node {
	var loop ast.Node
	for _, anc := range core.PathTo(f.Decl.Body, n) {
		switch anc.(type) {
		case *ast.ForStmt, *ast.RangeStmt:
			loop = anc
		}
	}
	return loop
}
