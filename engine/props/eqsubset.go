package props

import (
	"go/ast"
	"go/types"

	"verif/engine/core"
)

// eqNotSubset: an equality method that compares two lists by membership ("every element of mine occurs in the other
// list") decides inclusion, not equality: with a repeated element on one side, [A, A] ⊆ [A, B] although the lists
// differ.  Rule: in the Equal/equal methods of the policy types, a loop over one operand's list field whose body hands
// the OTHER operand's whole list of the same field to a call is matched by the mirrored loop (other operand's list,
// receiver's whole list) in the same method.  Positional comparison (`a.f[i]` against `b.f[i]`) is not affected.
func eqNotSubset(c *core.Ctx, rule string) {
	p := c.P
	n := 0
	for _, rel := range []string{"routingtable/filter", "routingtable/filter/actions"} {
		for _, f := range p.FuncsIn(rel) {
			if f.Decl.Body == nil || isTestFn(p, f) || f.Decl.Recv == nil || (f.Decl.Name.Name != "equal" && f.Decl.Name.Name != "Equal") {
				continue
			}
			recv := recvObj(f)
			sig := f.Obj.Type().(*types.Signature)
			if recv == nil || sig.Params().Len() != 1 {
				continue
			}
			param := types.Object(sig.Params().At(0))
			n++
			type dir struct {
				field *types.Var
				from  types.Object
			}
			seen := map[dir]ast.Node{}
			ast.Inspect(f.Decl.Body, func(nd ast.Node) bool {
				rs, ok := nd.(*ast.RangeStmt)
				if !ok {
					return true
				}
				sel, ok := core.Unparen(rs.X).(*ast.SelectorExpr)
				if !ok {
					return true
				}
				fv := core.FieldOf(f.Pkg, sel)
				from := core.ObjOf(f.Pkg, sel.X)
				if fv == nil || (from != recv && from != param) {
					return true
				}
				other := param
				if from == param {
					other = recv
				}
				// a call in the body that is handed the other operand's whole list of the same field
				hands := false
				ast.Inspect(rs.Body, func(m ast.Node) bool {
					call, ok := m.(*ast.CallExpr)
					if !ok {
						return true
					}
					for _, a := range call.Args {
						if as, ok := core.Unparen(a).(*ast.SelectorExpr); ok && core.FieldOf(f.Pkg, as) == fv && core.ObjOf(f.Pkg, as.X) == other {
							hands = true
						}
					}
					return true
				})
				if hands {
					seen[dir{fv, from}] = rs
				}
				return true
			})
			for d, node := range seen {
				other := param
				if d.from == param {
					other = recv
				}
				c.Analysed(f)
				_, mirrored := seen[dir{d.field, other}]
				c.Check(mirrored, rule, f.Name()+" compares the list "+d.field.Name()+" in both directions", node.Pos(),
					"the lists are compared by membership in one direction only (every element of one operand occurs somewhere in the other's list): that is inclusion — with a repeated element [A, A] equals [A, B] — so two policies that behave differently compare equal and the replacement of one by the other is skipped")
			}
		}
	}
	c.Check(n >= 5, rule, "equality methods of the policy types examined", 0, "fewer than 5 found")
}
