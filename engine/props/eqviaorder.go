package props

import (
	"fmt"
	"go/ast"
	"go/token"
	"go/types"
	"strings"

	"verif/engine/core"
)

// equalityNotViaPartialOrdering: an equality function that is implemented as `x.Compare(y) == 0` (or any other
// three-way ordering call compared with 0) is only as fine as that ordering.  When the ordering does not read every
// field of the operand type (IP.Compare orders by the two 64-bit words and ignores the address family), values that
// differ in the unread field become "equal": 10.0.0.1 == ::a00:1, 0.0.0.0/0 == ::/0.  Rule: in functions named
// Equal/equal of the given packages, an `== 0` / `!= 0` test of a method call whose receiver type is a struct must be
// on a method that (transitively) reads every field of that struct.
func equalityNotViaPartialOrdering(c *core.Ctx, rule string, pkgs []string, floor int) {
	p := c.P
	nFns := 0
	for _, rel := range pkgs {
		for _, f := range p.FuncsIn(rel) {
			if f.Decl.Body == nil || isTestFn(p, f) {
				continue
			}
			if n := f.Decl.Name.Name; n != "Equal" && n != "equal" {
				continue
			}
			nFns++
			c.Analysed(f)
			ord := 0
			ast.Inspect(f.Decl.Body, func(nd ast.Node) bool {
				be, ok := nd.(*ast.BinaryExpr)
				if !ok || (be.Op != token.EQL && be.Op != token.NEQ) {
					return true
				}
				var call *ast.CallExpr
				for i, side := range []ast.Expr{be.X, be.Y} {
					other := []ast.Expr{be.Y, be.X}[i]
					if cl, isCall := core.Unparen(side).(*ast.CallExpr); isCall {
						if v := core.ConstOf(f.Pkg, other); v != nil && v.ExactString() == "0" {
							call = cl
						}
					}
				}
				if call == nil {
					return true
				}
				cal := core.Callee(f.Pkg, call)
				g := p.FnOf(cal)
				if cal == nil || g == nil || g.Decl.Recv == nil {
					return true
				}
				sig := cal.Type().(*types.Signature)
				rt := sig.Recv().Type()
				if pt, isPtr := rt.(*types.Pointer); isPtr {
					rt = pt.Elem()
				}
				st, isStruct := rt.Underlying().(*types.Struct)
				if !isStruct {
					return true
				}
				ord++
				reads := p.ReadsTransitive(g)
				var missing []string
				for i := 0; i < st.NumFields(); i++ {
					if !reads[st.Field(i)] {
						missing = append(missing, st.Field(i).Name())
					}
				}
				c.Check(len(missing) == 0, rule, fmt.Sprintf("%s equality test #%d through %s", f.Name(), ord, cal.Name()), be.Pos(),
					fmt.Sprintf("equality is decided by `%s` compared with 0, but %s does not read the field(s) %s of its operand type: values that differ only there compare equal", core.ExprString(call), g.Name(), strings.Join(missing, ", ")))
				return true
			})
		}
	}
	c.Check(nFns >= floor, rule, "equality functions examined", 0, fmt.Sprintf("examined %d Equal/equal functions, floor %d", nFns, floor))
}
