package props

import (
	"go/ast"
	"go/token"
	"go/types"
	"strings"

	"verif/engine/core"
)

// eventSendsNotDroppable: events sent to an FSM (start, stop, cease) reach its event loop.  A send on FSM.eventCh may be
// a plain (blocking) send, or one alternative of a select whose other alternatives wait for something else; it must
// not be droppable, i.e. sit in a select with a `default` clause or next to a timer (time.After, Timer.C, Ticker.C):
// the FSM goroutine is often busy (processing an UPDATE, writing to the peer), and an event offered at that moment
// would be lost for good.
func eventSendsNotDroppable(c *core.Ctx, rule string, floor int) {
	p := c.P
	evc := p.Field(srv, "FSM", "eventCh")
	if evc == nil {
		c.Undecided(rule, "FSM.eventCh", 0, "field not found")
		return
	}
	c.Floor(rule, floor)
	ended := endedChannels(c)
	for _, f := range p.FuncsIn(srv) {
		if f.Decl.Body == nil {
			continue
		}
		// select statements and their clauses
		type selInfo struct {
			sel    *ast.SelectStmt
			clause *ast.CommClause
		}
		owner := map[ast.Node]selInfo{}
		ast.Inspect(f.Decl.Body, func(nd ast.Node) bool {
			if sel, ok := nd.(*ast.SelectStmt); ok {
				for _, cl := range sel.Body.List {
					if cc := cl.(*ast.CommClause); cc.Comm != nil {
						owner[cc.Comm] = selInfo{sel, cc}
					}
				}
			}
			return true
		})
		ast.Inspect(f.Decl.Body, func(nd ast.Node) bool {
			ss, ok := nd.(*ast.SendStmt)
			if !ok || core.FieldOf(f.Pkg, ss.Chan) != evc {
				return true
			}
			c.Analysed(f)
			// a helper that forwards its parameter: the events are what its callers pass
			var constructs []string
			var positions []token.Pos
			if isParamExpr(f, ss.Value) {
				for _, cs := range callSitesOf(p, f) {
					if len(cs.call.Args) == 1 {
						constructs = append(constructs, cs.f.Name()+" sends "+core.ExprString(cs.call.Args[0])+" to the FSM (through "+f.Decl.Name.Name+")")
						positions = append(positions, cs.call.Pos())
					}
				}
			}
			if len(constructs) == 0 {
				constructs = []string{f.Name() + " sends " + core.ExprString(ss.Value) + " to the FSM"}
				positions = []token.Pos{ss.Pos()}
			}
			si, inSel := owner[nd]
			if !inSel {
				for i := range constructs {
					c.Hold(rule, constructs[i], positions[i], "plain blocking send")
				}
				return true
			}
			why := ""
			for _, cl := range si.sel.Body.List {
				cc := cl.(*ast.CommClause)
				if cc == si.clause {
					continue
				}
				if cc.Comm == nil {
					why = "the select has a default clause"
					break
				}
				if isTimerRecv(f, cc.Comm) {
					why = "the select gives up after a timer (" + core.ExprString(commChan(cc.Comm)) + ")"
					break
				}
				if ch := commChan(cc.Comm); ch == nil || !ended[core.FieldOf(f.Pkg, ch)] {
					// some other alternative: not decidable here, recorded
					continue
				}
			}
			for i := range constructs {
				c.Check(why == "", rule, constructs[i], positions[i], why+": when the FSM goroutine is not parked in its event loop at that instant (it is processing a message or writing to the peer) the event is dropped silently; a stop that is dropped leaves the session Established with its routes, registrations and contributing ASN in place after the peer was disposed")
			}
			return true
		})
	}
}

func commChan(s ast.Stmt) ast.Expr {
	var e ast.Expr
	switch x := s.(type) {
	case *ast.ExprStmt:
		e = x.X
	case *ast.AssignStmt:
		if len(x.Rhs) == 1 {
			e = x.Rhs[0]
		}
	}
	if u, ok := core.Unparen(e).(*ast.UnaryExpr); ok {
		return core.Unparen(u.X)
	}
	return nil
}

func isTimerRecv(f *core.Fn, s ast.Stmt) bool {
	ch := commChan(s)
	if ch == nil {
		return false
	}
	if call, ok := ch.(*ast.CallExpr); ok {
		if callee := core.Callee(f.Pkg, call); callee != nil && callee.Pkg() != nil && callee.Pkg().Path() == "time" {
			return true
		}
		return false
	}
	if sel, ok := ch.(*ast.SelectorExpr); ok && sel.Sel.Name == "C" {
		t := f.Pkg.TypesInfo.TypeOf(sel.X)
		if pt, ok := t.(*types.Pointer); ok {
			t = pt.Elem()
		}
		if n, ok := t.(*types.Named); ok && n.Obj().Pkg() != nil && (n.Obj().Pkg().Path() == "time" || n.Obj().Pkg().Path() == "github.com/benbjohnson/clock") {
			return true
		}
	}
	return false
}

// endedChannels: channel fields of FSM that signal "this FSM no longer processes events": every close() of the field sits
// in a function that is only ever invoked through a defer in FSM.run.
func endedChannels(c *core.Ctx) map[*types.Var]bool {
	p := c.P
	out := map[*types.Var]bool{}
	run := p.Func(srv + ".(*FSM).run")
	if run == nil {
		return out
	}
	closers := map[*types.Var][]*core.Fn{}
	for _, f := range p.FuncsIn(srv) {
		if f.Decl.Body == nil || isTestFn(p, f) {
			continue
		}
		ast.Inspect(f.Decl.Body, func(n ast.Node) bool {
			call, ok := n.(*ast.CallExpr)
			if !ok || len(call.Args) != 1 {
				return true
			}
			if id, ok := call.Fun.(*ast.Ident); !ok || id.Name != "close" {
				return true
			}
			if fv := core.FieldOf(f.Pkg, call.Args[0]); fv != nil && ownerName(fv) == "FSM" {
				closers[fv] = append(closers[fv], f)
			}
			return true
		})
	}
	// every call of the closer is in FSM.run and is either deferred or the FSM never goes back to an event loop after it
	deferredInRun := func(g *core.Fn) bool {
		sites := callSitesOf(p, g)
		if len(sites) == 0 {
			return false
		}
		cfgRun := p.CFG(run)
		for _, s := range sites {
			if s.f != run {
				return false
			}
			isDefer := false
			for _, anc := range core.PathTo(run.Decl.Body, s.call) {
				if d, ok := anc.(*ast.DeferStmt); ok && d.Call == s.call {
					isDefer = true
				}
			}
			if isDefer {
				continue
			}
			isThis := func(n ast.Node) bool { return core.NodeHas(n, func(x ast.Node) bool { return x == ast.Node(s.call) }) }
			isLoop := func(n ast.Node) bool {
				return core.NodeHas(n, func(x ast.Node) bool {
					call, ok := x.(*ast.CallExpr)
					if !ok {
						return false
					}
					sel, ok := call.Fun.(*ast.SelectorExpr)
					return ok && sel.Sel.Name == "run" && len(call.Args) == 0
				})
			}
			if back := core.PathAvoidingFrom(cfgRun, isThis, func(ast.Node) bool { return false }, isLoop); len(back) > 0 {
				return false
			}
		}
		return true
	}
	for fv, fs := range closers {
		ok := true
		for _, f := range fs {
			if !deferredInRun(f) {
				ok = false
			}
		}
		if ok {
			out[fv] = true
		}
	}
	return out
}

// deliveringSend: cfg-node predicate for "the event is handed to the FSM, or the FSM has ended": a plain send on
// FSM.eventCh, or such a send in a select whose every other alternative is a receive from an ended-channel.
func deliveringSend(c *core.Ctx, f *core.Fn) func(ast.Node) bool {
	p := c.P
	evc := p.Field(srv, "FSM", "eventCh")
	ended := endedChannels(c)
	okSel := map[ast.Node]bool{}
	inSel := map[ast.Node]bool{}
	ast.Inspect(f.Decl.Body, func(nd ast.Node) bool {
		sel, ok := nd.(*ast.SelectStmt)
		if !ok {
			return true
		}
		for _, cl := range sel.Body.List {
			cc := cl.(*ast.CommClause)
			if cc.Comm == nil {
				continue
			}
			inSel[cc.Comm] = true
			if _, isSend := cc.Comm.(*ast.SendStmt); !isSend {
				continue
			}
			good := true
			for _, other := range sel.Body.List {
				oc := other.(*ast.CommClause)
				if oc == cc {
					continue
				}
				if oc.Comm == nil {
					good = false
					break
				}
				ch := commChan(oc.Comm)
				if ch == nil || !ended[core.FieldOf(f.Pkg, ch)] {
					good = false
				}
			}
			okSel[cc.Comm] = good
		}
		return true
	})
	return func(nd ast.Node) bool {
		ss, ok := nd.(*ast.SendStmt)
		if !ok || evc == nil || core.FieldOf(f.Pkg, ss.Chan) != evc {
			return false
		}
		return !inSel[nd] || okSel[nd]
	}
}

// endedSignalBeforeLocks: once FSM.run has left the last event loop (a state's run() returned the final state), nobody
// receives on the event channel any more; senders are released by the ended-signal.  A sender may hold a lock (the
// collision check sends Cease with peer.fsmsMu held).  Rule: on every path of FSM.run from an event loop's return to
// a `return`, the ended-signal is given BEFORE any call that acquires a lock a sender of events can hold — otherwise the
// sender waits for the signal and the FSM waits for the sender's lock.
func endedSignalBeforeLocks(c *core.Ctx, rule string) {
	p := c.P
	run := c.MustFunc(srv + ".(*FSM).run")
	send := p.Func(srv + ".(*FSM).sendEvent")
	if run == nil {
		return
	}
	c.Analysed(run)
	ended := endedChannels(c)
	if len(ended) == 0 || send == nil {
		c.Hold(rule, run.Name()+" gives the ended-signal before taking locks", run.Decl.Pos(), "no ended-signal in use (events are handed over by plain blocking sends)")
		return
	}
	// closers of ended channels
	isCloser := map[*core.Fn]bool{}
	for _, f := range p.FuncsIn(srv) {
		if f.Decl.Body == nil || isTestFn(p, f) {
			continue
		}
		ast.Inspect(f.Decl.Body, func(n ast.Node) bool {
			if call, ok := n.(*ast.CallExpr); ok && len(call.Args) == 1 {
				if id, ok := call.Fun.(*ast.Ident); ok && id.Name == "close" && ended[core.FieldOf(f.Pkg, call.Args[0])] {
					isCloser[f] = true
				}
			}
			return true
		})
	}
	// locks the senders may hold: lock classes held at (or on entry to) the call sites of sendEvent, transitively one level
	lp := core.BuildLockProg(p, func(f *core.Fn) bool { return strings.HasSuffix(f.Pkg.PkgPath, srv) })
	heldBySenders := map[string]bool{}
	var collect func(g *core.Fn, depth int)
	seen := map[*core.Fn]bool{}
	collect = func(g *core.Fn, depth int) {
		if seen[g] || depth > 4 {
			return
		}
		seen[g] = true
		for _, cs := range callSitesOf(p, g) {
			if ls := lp.Sets[cs.f]; ls != nil {
				for h := range ls.MayAt(cs.call) {
					if hc := lp.KeyClass[cs.f][h]; hc != nil {
						heldBySenders[core.ClassKey2(hc)] = true
					}
				}
			}
			collect(cs.f, depth+1)
		}
	}
	collect(send, 0)
	acquires := func(g *core.Fn) string {
		for _, h := range p.ReachableFns(g) {
			for class := range lp.Direct[h] {
				if heldBySenders[class] {
					return class
				}
			}
		}
		return ""
	}
	g := p.CFG(run)
	isLoopRet := func(n ast.Node) bool {
		return core.NodeHas(n, func(x ast.Node) bool {
			call, ok := x.(*ast.CallExpr)
			if !ok {
				return false
			}
			sel, ok := call.Fun.(*ast.SelectorExpr)
			return ok && sel.Sel.Name == "run" && len(call.Args) == 0
		})
	}
	isSignal := func(n ast.Node) bool {
		if _, isDefer := n.(*ast.DeferStmt); isDefer {
			return false
		}
		return core.NodeHas(n, func(x ast.Node) bool {
			call, ok := x.(*ast.CallExpr)
			return ok && isCloser[p.FnOf(core.Callee(run.Pkg, call))]
		})
	}
	why := ""
	isLocking := func(n ast.Node) bool {
		if _, isDefer := n.(*ast.DeferStmt); isDefer {
			return false
		}
		return core.NodeHas(n, func(x ast.Node) bool {
			call, ok := x.(*ast.CallExpr)
			if !ok {
				return false
			}
			callee := p.FnOf(core.Callee(run.Pkg, call))
			if callee == nil || isCloser[callee] {
				return false
			}
			// going back into an event loop is not "after the last loop"
			if sel, ok := call.Fun.(*ast.SelectorExpr); ok && sel.Sel.Name == "run" && len(call.Args) == 0 {
				return false
			}
			if cl := acquires(callee); cl != "" {
				why = callee.Name() + " takes " + short(cl)
				return true
			}
			return false
		})
	}
	// only paths that really end the function matter: a locking call that is followed by another event loop is fine
	var bad []ast.Node
	for _, h := range core.PathAvoidingFrom(g, isLoopRet, isSignal, isLocking) {
		// does the function end after h without another event loop?
		isThis := func(n ast.Node) bool { return n == h }
		isRet := func(n ast.Node) bool { _, ok := n.(*ast.ReturnStmt); return ok }
		if len(core.PathAvoidingFrom(g, isThis, isLoopRet, isRet)) > 0 {
			bad = append(bad, h)
		}
	}
	pos := run.Decl.Pos()
	if len(bad) > 0 {
		pos = bad[0].Pos()
	}
	c.Check(len(bad) == 0, rule, run.Name()+" gives the ended-signal before taking a lock a sender of events can hold", pos,
		"after its last event loop FSM.run calls something that takes a lock ("+why+") before the ended-signal is given: a goroutine that holds that lock and hands an event to this FSM (the collision check sending Cease) waits for the signal, the FSM waits for the lock — both block forever, and with them every operation on the peer")
}
