package props

import (
	"go/ast"
	"go/types"

	"verif/engine/core"
)

// eventSendsNotDroppable: events sent to an FSM (start, stop, cease) reach its event loop.  A send on FSM.eventCh may be
// a plain (blocking) send, or one alternative of a select whose other alternatives wait for something else; it must
// not be droppable, i.e. sit in a select with a `default` clause or next to a timer (time.After, Timer.C, Ticker.C):
// the FSM goroutine is often busy (processing an UPDATE, writing to the peer), and an event offered at that moment
// would be lost for good.
func eventSendsNotDroppable(c *core.Ctx, rule string, floor int) {
	p := c.P
	evc := p.Field(srv, "FSM", "eventCh")
	if evc == nil {
		c.Undecided(rule, "FSM.eventCh", 0, "field not found")
		return
	}
	c.Floor(rule, floor)
	for _, f := range p.FuncsIn(srv) {
		if f.Decl.Body == nil {
			continue
		}
		// select statements and their clauses
		type selInfo struct {
			sel   *ast.SelectStmt
			clause *ast.CommClause
		}
		owner := map[ast.Node]selInfo{}
		ast.Inspect(f.Decl.Body, func(nd ast.Node) bool {
			if sel, ok := nd.(*ast.SelectStmt); ok {
				for _, cl := range sel.Body.List {
					if cc := cl.(*ast.CommClause); cc.Comm != nil {
						owner[cc.Comm] = selInfo{sel, cc}
					}
				}
			}
			return true
		})
		ast.Inspect(f.Decl.Body, func(nd ast.Node) bool {
			ss, ok := nd.(*ast.SendStmt)
			if !ok || core.FieldOf(f.Pkg, ss.Chan) != evc {
				return true
			}
			c.Analysed(f)
			construct := f.Name() + " sends " + core.ExprString(ss.Value) + " to the FSM"
			si, inSel := owner[nd]
			if !inSel {
				c.Hold(rule, construct, ss.Pos(), "plain blocking send")
				return true
			}
			why := ""
			for _, cl := range si.sel.Body.List {
				cc := cl.(*ast.CommClause)
				if cc == si.clause {
					continue
				}
				if cc.Comm == nil {
					why = "the select has a default clause"
					break
				}
				if isTimerRecv(f, cc.Comm) {
					why = "the select gives up after a timer (" + core.ExprString(commChan(cc.Comm)) + ")"
					break
				}
			}
			c.Check(why == "", rule, construct, ss.Pos(), why+": when the FSM goroutine is not parked in its event loop at that instant (it is processing a message or writing to the peer) the event is dropped silently; a stop that is dropped leaves the session Established with its routes, registrations and contributing ASN in place after the peer was disposed")
			return true
		})
	}
}

func commChan(s ast.Stmt) ast.Expr {
	var e ast.Expr
	switch x := s.(type) {
	case *ast.ExprStmt:
		e = x.X
	case *ast.AssignStmt:
		if len(x.Rhs) == 1 {
			e = x.Rhs[0]
		}
	}
	if u, ok := core.Unparen(e).(*ast.UnaryExpr); ok {
		return core.Unparen(u.X)
	}
	return nil
}

func isTimerRecv(f *core.Fn, s ast.Stmt) bool {
	ch := commChan(s)
	if ch == nil {
		return false
	}
	if call, ok := ch.(*ast.CallExpr); ok {
		if callee := core.Callee(f.Pkg, call); callee != nil && callee.Pkg() != nil && callee.Pkg().Path() == "time" {
			return true
		}
		return false
	}
	if sel, ok := ch.(*ast.SelectorExpr); ok && sel.Sel.Name == "C" {
		t := f.Pkg.TypesInfo.TypeOf(sel.X)
		if pt, ok := t.(*types.Pointer); ok {
			t = pt.Elem()
		}
		if n, ok := t.(*types.Named); ok && n.Obj().Pkg() != nil && (n.Obj().Pkg().Path() == "time" || n.Obj().Pkg().Path() == "github.com/benbjohnson/clock") {
			return true
		}
	}
	return false
}
