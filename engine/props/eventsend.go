package props

import (
	"go/ast"
	"go/token"
	"go/types"

	"verif/engine/core"
)

// eventSendsNotDroppable: events sent to an FSM (start, stop, cease) reach its event loop.  A send on FSM.eventCh may be
// a plain (blocking) send, or one alternative of a select whose other alternatives wait for something else; it must
// not be droppable, i.e. sit in a select with a `default` clause or next to a timer (time.After, Timer.C, Ticker.C):
// the FSM goroutine is often busy (processing an UPDATE, writing to the peer), and an event offered at that moment
// would be lost for good.
func eventSendsNotDroppable(c *core.Ctx, rule string, floor int) {
	p := c.P
	evc := p.Field(srv, "FSM", "eventCh")
	if evc == nil {
		c.Undecided(rule, "FSM.eventCh", 0, "field not found")
		return
	}
	c.Floor(rule, floor)
	ended := endedChannels(c)
	for _, f := range p.FuncsIn(srv) {
		if f.Decl.Body == nil {
			continue
		}
		// select statements and their clauses
		type selInfo struct {
			sel    *ast.SelectStmt
			clause *ast.CommClause
		}
		owner := map[ast.Node]selInfo{}
		ast.Inspect(f.Decl.Body, func(nd ast.Node) bool {
			if sel, ok := nd.(*ast.SelectStmt); ok {
				for _, cl := range sel.Body.List {
					if cc := cl.(*ast.CommClause); cc.Comm != nil {
						owner[cc.Comm] = selInfo{sel, cc}
					}
				}
			}
			return true
		})
		ast.Inspect(f.Decl.Body, func(nd ast.Node) bool {
			ss, ok := nd.(*ast.SendStmt)
			if !ok || core.FieldOf(f.Pkg, ss.Chan) != evc {
				return true
			}
			c.Analysed(f)
			// a helper that forwards its parameter: the events are what its callers pass
			var constructs []string
			var positions []token.Pos
			if isParamExpr(f, ss.Value) {
				for _, cs := range callSitesOf(p, f) {
					if len(cs.call.Args) == 1 {
						constructs = append(constructs, cs.f.Name()+" sends "+core.ExprString(cs.call.Args[0])+" to the FSM (through "+f.Decl.Name.Name+")")
						positions = append(positions, cs.call.Pos())
					}
				}
			}
			if len(constructs) == 0 {
				constructs = []string{f.Name() + " sends " + core.ExprString(ss.Value) + " to the FSM"}
				positions = []token.Pos{ss.Pos()}
			}
			si, inSel := owner[nd]
			if !inSel {
				for i := range constructs {
					c.Hold(rule, constructs[i], positions[i], "plain blocking send")
				}
				return true
			}
			why := ""
			for _, cl := range si.sel.Body.List {
				cc := cl.(*ast.CommClause)
				if cc == si.clause {
					continue
				}
				if cc.Comm == nil {
					why = "the select has a default clause"
					break
				}
				if isTimerRecv(f, cc.Comm) {
					why = "the select gives up after a timer (" + core.ExprString(commChan(cc.Comm)) + ")"
					break
				}
				if ch := commChan(cc.Comm); ch == nil || !ended[core.FieldOf(f.Pkg, ch)] {
					// some other alternative: not decidable here, recorded
					continue
				}
			}
			for i := range constructs {
				c.Check(why == "", rule, constructs[i], positions[i], why+": when the FSM goroutine is not parked in its event loop at that instant (it is processing a message or writing to the peer) the event is dropped silently; a stop that is dropped leaves the session Established with its routes, registrations and contributing ASN in place after the peer was disposed")
			}
			return true
		})
	}
}

func commChan(s ast.Stmt) ast.Expr {
	var e ast.Expr
	switch x := s.(type) {
	case *ast.ExprStmt:
		e = x.X
	case *ast.AssignStmt:
		if len(x.Rhs) == 1 {
			e = x.Rhs[0]
		}
	}
	if u, ok := core.Unparen(e).(*ast.UnaryExpr); ok {
		return core.Unparen(u.X)
	}
	return nil
}

func isTimerRecv(f *core.Fn, s ast.Stmt) bool {
	ch := commChan(s)
	if ch == nil {
		return false
	}
	if call, ok := ch.(*ast.CallExpr); ok {
		if callee := core.Callee(f.Pkg, call); callee != nil && callee.Pkg() != nil && callee.Pkg().Path() == "time" {
			return true
		}
		return false
	}
	if sel, ok := ch.(*ast.SelectorExpr); ok && sel.Sel.Name == "C" {
		t := f.Pkg.TypesInfo.TypeOf(sel.X)
		if pt, ok := t.(*types.Pointer); ok {
			t = pt.Elem()
		}
		if n, ok := t.(*types.Named); ok && n.Obj().Pkg() != nil && (n.Obj().Pkg().Path() == "time" || n.Obj().Pkg().Path() == "github.com/benbjohnson/clock") {
			return true
		}
	}
	return false
}

// endedChannels: channel fields of FSM that signal "this FSM no longer processes events": every close() of the field sits
// in a function that is only ever invoked through a defer in FSM.run.
func endedChannels(c *core.Ctx) map[*types.Var]bool {
	p := c.P
	out := map[*types.Var]bool{}
	run := p.Func(srv + ".(*FSM).run")
	if run == nil {
		return out
	}
	closers := map[*types.Var][]*core.Fn{}
	for _, f := range p.FuncsIn(srv) {
		if f.Decl.Body == nil || isTestFn(p, f) {
			continue
		}
		ast.Inspect(f.Decl.Body, func(n ast.Node) bool {
			call, ok := n.(*ast.CallExpr)
			if !ok || len(call.Args) != 1 {
				return true
			}
			if id, ok := call.Fun.(*ast.Ident); !ok || id.Name != "close" {
				return true
			}
			if fv := core.FieldOf(f.Pkg, call.Args[0]); fv != nil && ownerName(fv) == "FSM" {
				closers[fv] = append(closers[fv], f)
			}
			return true
		})
	}
	deferredInRun := func(g *core.Fn) bool {
		sites := callSitesOf(p, g)
		if len(sites) == 0 {
			return false
		}
		for _, s := range sites {
			if s.f != run {
				return false
			}
			isDefer := false
			for _, anc := range core.PathTo(run.Decl.Body, s.call) {
				if d, ok := anc.(*ast.DeferStmt); ok && d.Call == s.call {
					isDefer = true
				}
			}
			if !isDefer {
				return false
			}
		}
		return true
	}
	for fv, fs := range closers {
		ok := true
		for _, f := range fs {
			if !deferredInRun(f) {
				ok = false
			}
		}
		if ok {
			out[fv] = true
		}
	}
	return out
}

// deliveringSend: cfg-node predicate for "the event is handed to the FSM, or the FSM has ended": a plain send on
// FSM.eventCh, or such a send in a select whose every other alternative is a receive from an ended-channel.
func deliveringSend(c *core.Ctx, f *core.Fn) func(ast.Node) bool {
	p := c.P
	evc := p.Field(srv, "FSM", "eventCh")
	ended := endedChannels(c)
	okSel := map[ast.Node]bool{}
	inSel := map[ast.Node]bool{}
	ast.Inspect(f.Decl.Body, func(nd ast.Node) bool {
		sel, ok := nd.(*ast.SelectStmt)
		if !ok {
			return true
		}
		for _, cl := range sel.Body.List {
			cc := cl.(*ast.CommClause)
			if cc.Comm == nil {
				continue
			}
			inSel[cc.Comm] = true
			if _, isSend := cc.Comm.(*ast.SendStmt); !isSend {
				continue
			}
			good := true
			for _, other := range sel.Body.List {
				oc := other.(*ast.CommClause)
				if oc == cc {
					continue
				}
				if oc.Comm == nil {
					good = false
					break
				}
				ch := commChan(oc.Comm)
				if ch == nil || !ended[core.FieldOf(f.Pkg, ch)] {
					good = false
				}
			}
			okSel[cc.Comm] = good
		}
		return true
	})
	return func(nd ast.Node) bool {
		ss, ok := nd.(*ast.SendStmt)
		if !ok || evc == nil || core.FieldOf(f.Pkg, ss.Chan) != evc {
			return false
		}
		return !inSel[nd] || okSel[nd]
	}
}
