package props

import (
	"fmt"
	"go/ast"
	"go/types"

	"verif/engine/core"
)

// everyFamilyHandled: fn applies callee (init / dispose of fsmAddressFamily) to EVERY address family field of the FSM:
// either by a call on the field itself that is controlled only by that field's nil test, or by a loop over a list that
// contains the field (a slice literal, directly or returned by a helper), whose body has no early exit and applies the
// callee to the cursor under nothing but the cursor's nil test.  A loop that stops at the first unconfigured family, or
// a family missing from the list, leaves that family's routes attached after the session left Established (or never
// attaches them).
func everyFamilyHandled(c *core.Ctx, rule string, fn *core.Fn, callee *core.Fn) {
	p := c.P
	if fn == nil || callee == nil {
		c.Check(false, rule, "anchors", 0, "function not found")
		return
	}
	c.Analysed(fn)
	var fams []*types.Var
	for _, fv := range p.Fields(srv, "FSM") {
		if pt, ok := fv.Type().(*types.Pointer); ok {
			if nt, ok := pt.Elem().(*types.Named); ok && nt.Obj().Name() == "fsmAddressFamily" {
				fams = append(fams, fv)
			}
		}
	}
	c.Check(len(fams) >= 2, rule, "FSM address family fields", 0, fmt.Sprintf("found %d fields of type *fsmAddressFamily in FSM, expected at least 2", len(fams)))
	covered := map[*types.Var]bool{}
	onlyNilTestOf := func(n ast.Node, same func(ast.Expr) bool) bool {
		for _, ft := range core.CtlFactsAt(fn, n) {
			x, ok := core.IsNilCheck(fn.Pkg, ft.Expr)
			if !ok || !same(x) {
				return false
			}
		}
		return true
	}
	// list literal elements (fields) of an expression: []*fsmAddressFamily{...} or a call of a helper returning one
	var listFields func(e ast.Expr, pk *core.Fn, depth int) []*types.Var
	listFields = func(e ast.Expr, in *core.Fn, depth int) []*types.Var {
		switch x := core.Unparen(e).(type) {
		case *ast.CompositeLit:
			var out []*types.Var
			for _, el := range x.Elts {
				if f := core.FieldOf(in.Pkg, el); f != nil {
					out = append(out, f)
				}
			}
			return out
		case *ast.CallExpr:
			if depth > 2 {
				return nil
			}
			if cal := core.Callee(in.Pkg, x); cal != nil {
				if h := p.FnOf(cal); h != nil && h.Decl.Body != nil {
					var out []*types.Var
					n := 0
					ast.Inspect(h.Decl.Body, func(m ast.Node) bool {
						if r, ok := m.(*ast.ReturnStmt); ok && len(r.Results) == 1 {
							n++
							out = listFields(r.Results[0], h, depth+1)
						}
						return true
					})
					if n == 1 {
						return out
					}
				}
			}
		case *ast.Ident:
			if o := core.ObjOf(in.Pkg, x); o != nil {
				defs := core.DefsOf(in, o)
				if len(defs) == 1 {
					return listFields(defs[0], in, depth+1)
				}
			}
		}
		return nil
	}
	for _, call := range core.Calls(fn.Pkg, fn.Decl.Body, func(o *types.Func) bool { return o == callee.Obj }) {
		se, ok := call.Fun.(*ast.SelectorExpr)
		if !ok {
			continue
		}
		if f := core.FieldOf(fn.Pkg, se.X); f != nil {
			if onlyNilTestOf(call, func(x ast.Expr) bool { return core.FieldOf(fn.Pkg, x) == f }) {
				covered[f] = true
			}
			continue
		}
		// cursor of an enclosing range loop
		cur := core.ObjOf(fn.Pkg, se.X)
		if cur == nil {
			continue
		}
		ast.Inspect(fn.Decl.Body, func(n ast.Node) bool {
			rs, ok := n.(*ast.RangeStmt)
			if !ok || rs.Value == nil || core.ObjOf(fn.Pkg, rs.Value) != cur || !(rs.Body.Pos() <= call.Pos() && call.End() <= rs.Body.End()) {
				return true
			}
			if len(loopExits(rs.Body)) > 0 {
				return true
			}
			// facts inside the loop: only the cursor's nil test
			okFacts := true
			for _, ft := range core.CtlFactsAt(fn, call) {
				if ft.Expr == nil || ft.Expr.Pos() < rs.Body.Pos() || ft.Expr.End() > rs.Body.End() {
					continue
				}
				x, isNil := core.IsNilCheck(fn.Pkg, ft.Expr)
				if !isNil || core.ObjOf(fn.Pkg, x) != cur {
					okFacts = false
				}
			}
			if okFacts {
				for _, f := range listFields(rs.X, fn, 0) {
					covered[f] = true
				}
			}
			return true
		})
	}
	for _, f := range fams {
		c.Check(covered[f], rule, fmt.Sprintf("%s applies %s to FSM.%s", fn.Name(), callee.Decl.Name.Name, f.Name()), fn.Decl.Pos(),
			fmt.Sprintf("%s does not reach %s of the address family FSM.%s whenever that family is configured (call missing, tied to another family's configuration, or inside a loop that can stop early): the family's RIBs stay attached to / detached from the Loc-RIB out of step with the session state", fn.Name(), callee.Decl.Name.Name, f.Name()))
	}
}
