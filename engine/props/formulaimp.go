package props

import (
	"fmt"
	"go/ast"
	"go/token"
	"sort"
	"strings"

	"verif/engine/core"
)

// formulaImplies decides `fm ⇒ conclusion` over all valuations of the atoms of fm.  classify maps an atom expression to
// the name of a known atom (negated=true when the expression is the negation of that atom); every other atom is a
// free variable named by its text, so the implication has to hold whatever its value.  Returns a counterexample text.
func formulaImplies(f *core.Fn, fm *core.Formula, classify func(e ast.Expr) (name string, negated bool, ok bool), conclusion func(v map[string]bool) bool) (bool, string) {
	names := map[string]bool{}
	var atomVal func(e ast.Expr, v map[string]bool, collect bool) bool
	atomVal = func(e ast.Expr, v map[string]bool, collect bool) bool {
		e = core.Unparen(e)
		switch x := e.(type) {
		case *ast.UnaryExpr:
			if x.Op == token.NOT {
				return !atomVal(x.X, v, collect)
			}
		case *ast.BinaryExpr:
			switch x.Op {
			case token.LAND:
				a := atomVal(x.X, v, collect)
				b := atomVal(x.Y, v, collect)
				return a && b
			case token.LOR:
				a := atomVal(x.X, v, collect)
				b := atomVal(x.Y, v, collect)
				return a || b
			}
		}
		if n, neg, ok := classify(e); ok {
			if collect {
				names[n] = true
			}
			return v[n] != neg
		}
		k := "«" + core.ExprString(e) + "»"
		if collect {
			names[k] = true
		}
		return v[k]
	}
	var evalF func(fm *core.Formula, v map[string]bool, collect bool) bool
	evalF = func(fm *core.Formula, v map[string]bool, collect bool) bool {
		switch fm.Op {
		case "true":
			return true
		case "false":
			return false
		case "not":
			return !evalF(fm.Sub[0], v, collect)
		case "and":
			a := evalF(fm.Sub[0], v, collect)
			b := evalF(fm.Sub[1], v, collect)
			return a && b
		case "or":
			a := evalF(fm.Sub[0], v, collect)
			b := evalF(fm.Sub[1], v, collect)
			return a || b
		case "atom":
			return atomVal(fm.Atom, v, collect)
		}
		k := "«formula:" + fm.Op + "»"
		if collect {
			names[k] = true
		}
		return v[k]
	}
	evalF(fm, map[string]bool{}, true)
	var keys []string
	for k := range names {
		keys = append(keys, k)
	}
	sort.Strings(keys)
	if len(keys) > 12 {
		return false, fmt.Sprintf("%d atoms in the path condition", len(keys))
	}
	for m := 0; m < 1<<len(keys); m++ {
		v := map[string]bool{}
		for i, k := range keys {
			v[k] = m&(1<<i) != 0
		}
		if evalF(fm, v, false) && !conclusion(v) {
			var parts []string
			for _, k := range keys {
				parts = append(parts, fmt.Sprintf("%s=%v", k, v[k]))
			}
			return false, strings.Join(parts, ", ")
		}
	}
	return true, ""
}
