package props

import (
	"fmt"
	"go/ast"
	"go/token"
	"go/types"
	"sort"

	"verif/engine/core"
)

const srv = "protocols/bgp/server"

var fsmStates = []string{"idleState", "connectState", "activeState", "openSentState", "openConfirmState", "establishedState", "ceaseState"}

// fsmReturn is one `return <state>, reason` of a state method.
type fsmReturn struct {
	From   string
	Method *core.Fn
	Ret    *ast.ReturnStmt
	To     string // target state type name, "" if delegated to another method of the same state type
	Deleg  *core.Fn
	Helper *core.Fn // shared helper (not a method of a state type) the return delegates to; To is one of its targets
}

// helperTargets resolves the states a shared helper returning (state, string) can return; ok=false when a return of
// the helper is neither a constructor call nor a further delegation.
func helperTargets(p *core.Prog, g *core.Fn, ctors map[*types.Func]string, depth int) (tos []string, ok bool) {
	if g == nil || g.Decl.Body == nil || depth > 4 {
		return nil, false
	}
	ok = true
	seen := map[string]bool{}
	core.InspectNoLit(g.Decl.Body, func(n ast.Node) bool {
		ret, isRet := n.(*ast.ReturnStmt)
		if !isRet {
			return true
		}
		if len(ret.Results) == 0 {
			ok = false
			return true
		}
		call, isCall := core.Unparen(ret.Results[0]).(*ast.CallExpr)
		if !isCall {
			ok = false
			return true
		}
		if to, isCtor := ctors[core.Callee(g.Pkg, call)]; isCtor && len(ret.Results) == 2 {
			if !seen[to] {
				seen[to] = true
				tos = append(tos, to)
			}
			return true
		}
		if h := p.FnOf(core.Callee(g.Pkg, call)); h != nil && len(ret.Results) == 1 && returnsState(h) {
			sub, subOK := helperTargets(p, h, ctors, depth+1)
			if !subOK {
				ok = false
			}
			for _, to := range sub {
				if !seen[to] {
					seen[to] = true
					tos = append(tos, to)
				}
			}
			return true
		}
		ok = false
		return true
	})
	sort.Strings(tos)
	return tos, ok && len(tos) > 0
}

func isStateType(name string) bool {
	for _, s := range fsmStates {
		if s == name {
			return true
		}
	}
	return false
}

// stateCtor maps constructor functions newXState to X.
func stateCtors(p *core.Prog) map[*types.Func]string {
	out := map[*types.Func]string{}
	for _, f := range p.FuncsIn(srv) {
		if f.Decl.Recv != nil || f.Decl.Type.Results == nil || len(f.Decl.Type.Results.List) != 1 {
			continue
		}
		t := f.Pkg.TypesInfo.TypeOf(f.Decl.Type.Results.List[0].Type)
		if pt, ok := t.(*types.Pointer); ok {
			if nt, ok := pt.Elem().(*types.Named); ok {
				for _, s := range fsmStates {
					if nt.Obj().Name() == s && nt.Obj().Pkg() == f.Pkg.Types {
						out[f.Obj] = s
					}
				}
			}
		}
	}
	return out
}

// returnsState: does the method return (state, string)?
func returnsState(f *core.Fn) bool {
	sig := f.Obj.Type().(*types.Signature)
	if sig.Results().Len() != 2 {
		return false
	}
	nt, ok := sig.Results().At(0).Type().(*types.Named)
	return ok && nt.Obj().Name() == "state"
}

// fsmReturns extracts every state-returning return statement of the seven state types.
func fsmReturns(c *core.Ctx) []fsmReturn {
	p := c.P
	ctors := stateCtors(p)
	var out []fsmReturn
	for _, st := range fsmStates {
		for _, m := range p.MethodsOf(srv, st) {
			if m.Decl.Body == nil || !returnsState(m) {
				continue
			}
			c.Analysed(m)
			core.InspectNoLit(m.Decl.Body, func(n ast.Node) bool {
				ret, ok := n.(*ast.ReturnStmt)
				if !ok {
					return true
				}
				r := fsmReturn{From: st, Method: m, Ret: ret}
				if len(ret.Results) == 1 {
					// return s.other()
					if call, ok := core.Unparen(ret.Results[0]).(*ast.CallExpr); ok {
						if g := p.FnOf(core.Callee(m.Pkg, call)); g != nil && core.RecvName(g.Obj) == st && returnsState(g) {
							r.Deleg = g
							out = append(out, r)
							return true
						}
						// shared helper (e.g. a method of FSM) returning (state, string): one edge per state it can return
						if g := p.FnOf(core.Callee(m.Pkg, call)); g != nil && !isStateType(core.RecvName(g.Obj)) && returnsState(g) {
							if tos, ok := helperTargets(p, g, ctors, 0); ok {
								c.Analysed(g)
								for _, to := range tos {
									rr := r
									rr.Helper, rr.To = g, to
									out = append(out, rr)
								}
								return true
							}
						}
					}
					c.Undecided("fsm-extraction", m.Name()+" single-value return", ret.Pos(), "return of a state is neither a constructor call nor a delegation to a method of the same state type")
					return true
				}
				if len(ret.Results) == 2 {
					if call, ok := core.Unparen(ret.Results[0]).(*ast.CallExpr); ok {
						if to, ok := ctors[core.Callee(m.Pkg, call)]; ok {
							r.To = to
							out = append(out, r)
							return true
						}
					}
					// `next, reason := s.other(); … return next, reason`: a delegation through locals
					if id, isId := core.Unparen(ret.Results[0]).(*ast.Ident); isId {
						defs := core.DefsOf(m, core.ObjOf(m.Pkg, id))
						okAll := len(defs) > 0
						var delegs []*core.Fn
						for _, d := range defs {
							call, isCall := core.Unparen(d).(*ast.CallExpr)
							var g *core.Fn
							if isCall {
								g = p.FnOf(core.Callee(m.Pkg, call))
							}
							if g == nil || core.RecvName(g.Obj) != st || !returnsState(g) {
								okAll = false
								break
							}
							delegs = append(delegs, g)
						}
						if okAll {
							for _, g := range delegs {
								rr := r
								rr.Deleg = g
								out = append(out, rr)
							}
							return true
						}
					}
					c.Undecided("fsm-extraction", m.Name()+" return", ret.Pos(), "first result of a state-returning return is not a newXState(...) constructor call")
				}
				return true
			})
		}
	}
	sort.SliceStable(out, func(i, j int) bool {
		if out[i].From != out[j].From {
			return out[i].From < out[j].From
		}
		return out[i].Ret.Pos() < out[j].Ret.Pos()
	})
	return out
}

// callNode builds a cfg-node predicate "contains a call whose static callee satisfies pred".
func callNode(f *core.Fn, pred func(*types.Func) bool) func(ast.Node) bool {
	return func(n ast.Node) bool {
		return core.NodeHas(n, func(x ast.Node) bool {
			cl, ok := x.(*ast.CallExpr)
			return ok && core.Callee(f.Pkg, cl) != nil && pred(core.Callee(f.Pkg, cl))
		})
	}
}

// conCloseNode: cfg node contains X.con.Close() for the FSM's connection field, or is the condition of
// `if X.con != nil { …X.con.Close()… }` (no else): on the branch where there is no connection nothing is left open.
func conCloseNode(c *core.Ctx, f *core.Fn) func(ast.Node) bool {
	conF := c.P.Field(srv, "FSM", "con")
	guards := map[ast.Node]bool{}
	ast.Inspect(f.Decl.Body, func(n ast.Node) bool {
		ifs, ok := n.(*ast.IfStmt)
		if !ok || ifs.Else != nil || ifs.Init != nil {
			return true
		}
		be, ok := core.Unparen(ifs.Cond).(*ast.BinaryExpr)
		if !ok || be.Op != token.NEQ || !core.IsNilIdent(f.Pkg, be.Y) || core.FieldOf(f.Pkg, be.X) != conF || conF == nil {
			return true
		}
		closes := false
		for _, st := range ifs.Body.List {
			if !closes && core.NodeHas(st, func(x ast.Node) bool { _, isRet := x.(*ast.ReturnStmt); return isRet }) {
				break // a return inside the guarded block ahead of the Close: the block is no longer "closes if there is a connection"
			}
			if es, ok := st.(*ast.ExprStmt); ok {
				if cl, ok := es.X.(*ast.CallExpr); ok {
					if se, ok := cl.Fun.(*ast.SelectorExpr); ok && se.Sel.Name == "Close" && core.FieldOf(f.Pkg, se.X) == conF {
						closes = true
					}
				}
			}
		}
		if closes {
			guards[ifs.Cond] = true
		}
		return true
	})
	return func(n ast.Node) bool {
		if guards[n] {
			return true
		}
		return core.NodeHas(n, func(x ast.Node) bool {
			cl, ok := x.(*ast.CallExpr)
			if !ok {
				return false
			}
			se, ok := cl.Fun.(*ast.SelectorExpr)
			return ok && se.Sel.Name == "Close" && core.FieldOf(f.Pkg, se.X) == conF && conF != nil
		})
	}
}

// retIndex gives a stable ordinal of a return inside its method.
func retIndex(m *core.Fn, ret *ast.ReturnStmt) int {
	i, idx := 0, 0
	core.InspectNoLit(m.Decl.Body, func(n ast.Node) bool {
		if r, ok := n.(*ast.ReturnStmt); ok {
			i++
			if r == ret {
				idx = i
			}
		}
		return true
	})
	return idx
}

// returnsReachableWithout lists the returns of f in `targets` that are reachable from entry without passing gate.
func returnsReachableWithout(p *core.Prog, f *core.Fn, gate func(ast.Node) bool, targets map[*ast.ReturnStmt]bool) []*ast.ReturnStmt {
	var out []*ast.ReturnStmt
	hits := core.PathAvoiding(p.CFG(f), gate, func(n ast.Node) bool {
		r, ok := n.(*ast.ReturnStmt)
		return ok && targets[r]
	})
	for _, h := range hits {
		out = append(out, h.(*ast.ReturnStmt))
	}
	return out
}

var _ = token.NoPos

// conKnownNil: the fact establishes FSM.con == nil.
func conKnownNil(c *core.Ctx, f *core.Fn, ft core.Fact) bool {
	conF := c.P.Field(srv, "FSM", "con")
	be, ok := ft.Expr.(*ast.BinaryExpr)
	if !ok || conF == nil || !core.IsNilIdent(f.Pkg, be.Y) || core.FieldOf(f.Pkg, be.X) != conF {
		return false
	}
	return be.Op == token.EQL && ft.Truth || be.Op == token.NEQ && !ft.Truth
}

// openRejectClosesConnection (C22): the functions that answer an OPEN with an OPEN Message Error NOTIFICATION close the
// connection on every path on which there is one.
func openRejectClosesConnection(c *core.Ctx) {
	const rule = "open-reject-closes-connection"
	p := c.P
	sn := p.Func(srv + ".(*FSM).sendNotification")
	if sn == nil {
		c.Check(false, rule, "sendNotification", 0, "anchor not found")
		return
	}
	n := 0
	for _, f := range p.FuncsIn(srv) {
		if f.Decl.Body == nil || isTestFn(p, f) {
			continue
		}
		emits := false
		for _, call := range core.Calls(f.Pkg, f.Decl.Body, func(o *types.Func) bool { return o == sn.Obj }) {
			if len(call.Args) >= 1 {
				if co := core.ConstObjOf(f.Pkg, call.Args[0]); co != nil && co.Name() == "OpenMessageError" {
					emits = true
				}
			}
		}
		if !emits {
			continue
		}
		n++
		c.Analysed(f)
		rets, implicit := core.ExitsWithout(p.CFG(f), conCloseNode(c, f))
		bad := 0
		for _, r := range rets {
			ex := false
			for _, ft := range core.FactsAt(f, r) {
				if conKnownNil(c, f, ft) {
					ex = true
				}
			}
			if !ex {
				bad++
				c.Check(false, rule, fmt.Sprintf("%s return #%d", f.Name(), retIndex(f, r)), r.Pos(),
					"an unacceptable OPEN is answered with the OPEN Message Error but on this path the function returns without closing the connection: the session goes to Idle while the peer keeps the half-open connection")
			}
		}
		if bad == 0 && !implicit {
			c.Check(true, rule, f.Name(), f.Decl.Pos(), "")
		}
	}
	c.Check(n >= 1, rule, "OPEN Message Error emitters", 0, "no function sends an OPEN Message Error NOTIFICATION")
}
