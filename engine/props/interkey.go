package props

import (
	"fmt"
	"go/ast"
	"go/token"
	"go/types"
	"sort"
	"strings"

	"verif/engine/core"
)

// internKeyCoversValue: the dedup caches (net.IP, net.Prefix, route.BGPPathA) hand out ONE shared object for all values
// that are equal under the cache key.  That is only sound if the key distinguishes every field of the value: a key that
// leaves a field out makes a path silently take over that field (e.g. the BGP identifier) from whichever equal-looking
// path was interned first.  Rule: the map key type is the value type itself (struct equality compares every field), or
// the function that builds the key from the value reads every field of the value type.
func internKeyCoversValue(c *core.Ctx, rule string) {
	p := c.P
	c.Floor(rule, 1)
	for _, f := range p.AllFuncs() {
		if f.Decl.Body == nil || isTestFn(p, f) || f.Decl.Recv == nil {
			continue
		}
		sig := f.Obj.Type().(*types.Signature)
		if sig.Params().Len() != 1 || sig.Results().Len() != 1 || !types.Identical(sig.Params().At(0).Type(), sig.Results().At(0).Type()) {
			continue
		}
		vt, ok := sig.Params().At(0).Type().(*types.Pointer)
		if !ok {
			continue
		}
		valStruct, ok := vt.Elem().Underlying().(*types.Struct)
		if !ok {
			continue
		}
		// an index into a map[K]*V field of the receiver
		var keyExprs []ast.Expr
		var mapT *types.Map
		ast.Inspect(f.Decl.Body, func(n ast.Node) bool {
			ie, ok := n.(*ast.IndexExpr)
			if !ok {
				return true
			}
			fv := core.FieldOf(f.Pkg, ie.X)
			if fv == nil {
				return true
			}
			mt, ok := fv.Type().Underlying().(*types.Map)
			if !ok || !types.Identical(mt.Elem(), vt) {
				return true
			}
			mapT = mt
			keyExprs = append(keyExprs, ie.Index)
			return true
		})
		if mapT == nil {
			continue
		}
		c.Analysed(f)
		construct := fmt.Sprintf("%s key of the intern map distinguishes every field of %s", f.Name(), types.TypeString(vt.Elem(), func(pk *types.Package) string { return pk.Name() }))
		if types.Identical(mapT.Key(), vt.Elem()) {
			// the key must be the value as it is: `*p`, or an unmodified copy of it
			par := types.Object(sig.Params().At(0))
			asIs := true
			why := ""
			for _, ke := range keyExprs {
				e := core.Unparen(ke)
				if st, ok := e.(*ast.StarExpr); ok && core.ObjOf(f.Pkg, st.X) == par {
					continue
				}
				o := core.ObjOf(f.Pkg, e)
				okCopy := o != nil
				if o != nil {
					for _, d := range core.DefsOf(f, o) {
						if st, ok := core.Unparen(d).(*ast.StarExpr); !ok || core.ObjOf(f.Pkg, st.X) != par {
							okCopy = false
						}
					}
					ast.Inspect(f.Decl.Body, func(n ast.Node) bool {
						if as, ok := n.(*ast.AssignStmt); ok {
							for _, l := range as.Lhs {
								if sel, ok := core.Unparen(l).(*ast.SelectorExpr); ok && core.ObjOf(f.Pkg, sel.X) == o {
									okCopy = false
									why = "field " + sel.Sel.Name + " of the key copy is overwritten"
								}
							}
						}
						return true
					})
				}
				if !okCopy {
					asIs = false
					if why == "" {
						why = "the key `" + core.ExprString(ke) + "` is not the value handed in"
					}
				}
			}
			c.Check(asIs, rule, construct, f.Decl.Pos(), why+": values that differ in what the key drops share one interned object, so the later one silently takes over the earlier one's attributes — for BGP paths a decision key (BGP identifier, ORIGINATOR_ID, …) of the wrong peer")
			continue
		}
		// key built by a function of the value: it must read every field
		missing := map[string]bool{}
		for i := 0; i < valStruct.NumFields(); i++ {
			missing[valStruct.Field(i).Name()] = true
		}
		par := types.Object(sig.Params().At(0))
		for _, ke := range keyExprs {
			var roots []ast.Node
			roots = append(roots, ke)
			if o := core.ObjOf(f.Pkg, ke); o != nil {
				for _, d := range core.DefsOf(f, o) {
					roots = append(roots, d)
				}
			}
			for _, r := range roots {
				ast.Inspect(r, func(n ast.Node) bool {
					switch x := n.(type) {
					case *ast.SelectorExpr:
						if fv := core.FieldOf(f.Pkg, x); fv != nil && core.ObjOf(f.Pkg, x.X) == par {
							delete(missing, fv.Name())
						}
					case *ast.CallExpr:
						if g := p.FnOf(core.Callee(f.Pkg, x)); g != nil {
							for fv := range p.ReadsTransitive(g) {
								for i := 0; i < valStruct.NumFields(); i++ {
									if valStruct.Field(i) == fv {
										delete(missing, fv.Name())
									}
								}
							}
						}
					}
					return true
				})
			}
		}
		var ms []string
		for m := range missing {
			ms = append(ms, m)
		}
		sort.Strings(ms)
		c.Check(len(ms) == 0, rule, construct, f.Decl.Pos(), "the cache key leaves out the field(s) "+strings.Join(ms, ", ")+": two values that differ only there share one interned object, i.e. the later one silently takes over the earlier one's "+strings.Join(ms, "/")+" — for BGP paths a decision key (BGP identifier, ORIGINATOR_ID, …) of the wrong peer")
	}
	_ = token.NoPos
}
