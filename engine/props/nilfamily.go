package props

import (
	"fmt"
	"go/ast"
	"go/token"
	"go/types"

	"verif/engine/core"
)

// nilableFamilyGuarded: FSM.addressFamily and peer.addressFamily return nil for an address family that is not IPv4/IPv6
// unicast or that is not configured on the session.  The (AFI, SAFI) they are called with comes from the peer's OPEN /
// from a BMP message, i.e. from the wire.  Rule: every dereference of such a result is dominated by a nil test of it.
// The peer-side result may also be covered by a nil test of the FSM-side result for the same (AFI, SAFI): newFSM creates
// an FSM family exactly when the peer has it (checked).
func nilableFamilyGuarded(c *core.Ctx, rule string, floor int) {
	p := c.P
	c.Floor(rule, floor)
	fsmFam := p.Func(srv + ".(*FSM).addressFamily")
	peerFam := p.Func(srv + ".(*peer).addressFamily")
	if fsmFam == nil || peerFam == nil {
		c.Undecided(rule, "addressFamily lookups", token.NoPos, "FSM.addressFamily / peer.addressFamily not found")
		return
	}
	// invariant used by the cross-cover: newFSM creates ipv4Unicast/ipv6Unicast only under peer.ipv4/ipv6 != nil
	inv := false
	if nf := p.Func(srv + ".newFSM"); nf != nil {
		n, ok := 0, true
		for _, pair := range [][2]string{{"ipv4Unicast", "ipv4"}, {"ipv6Unicast", "ipv6"}} {
			ff, pf := p.Field(srv, "FSM", pair[0]), p.Field(srv, "peer", pair[1])
			ast.Inspect(nf.Decl.Body, func(nd ast.Node) bool {
				as, isAs := nd.(*ast.AssignStmt)
				if !isAs || len(as.Lhs) != 1 || core.FieldOf(nf.Pkg, as.Lhs[0]) != ff || ff == nil {
					return true
				}
				n++
				g := false
				for _, ft := range core.FactsAt(nf, as) {
					if be, isB := core.Unparen(ft.Expr).(*ast.BinaryExpr); isB && ((be.Op == token.NEQ && ft.Truth) || (be.Op == token.EQL && !ft.Truth)) && core.FieldOf(nf.Pkg, be.X) == pf && pf != nil {
						g = true
					}
				}
				if !g {
					ok = false
				}
				return true
			})
		}
		inv = ok && n == 2
		if !inv {
			c.Undecided(rule, "newFSM creates FSM families only from existing peer families", nf.Decl.Pos(), fmt.Sprintf("invariant not established (assignments=%d guarded=%v)", n, ok))
		}
	}
	notNil := func(f *core.Fn, at ast.Node, o types.Object) bool {
		for _, ft := range core.FactsAt(f, at) {
			be, ok := core.Unparen(ft.Expr).(*ast.BinaryExpr)
			if !ok {
				continue
			}
			x, y := be.X, be.Y
			if id, ok := core.Unparen(x).(*ast.Ident); ok && id.Name == "nil" {
				x, y = y, x
			}
			if id, ok := core.Unparen(y).(*ast.Ident); !ok || id.Name != "nil" || core.ObjOf(f.Pkg, x) != o {
				continue
			}
			if (be.Op == token.NEQ && ft.Truth) || (be.Op == token.EQL && !ft.Truth) {
				return true
			}
		}
		return false
	}
	for _, f := range p.FuncsIn(srv) {
		if f.Decl.Body == nil || isTestFn(p, f) {
			continue
		}
		type bound struct {
			obj  types.Object
			call *ast.CallExpr
			peer bool
		}
		var bs []bound
		ast.Inspect(f.Decl.Body, func(nd ast.Node) bool {
			switch x := nd.(type) {
			case *ast.AssignStmt:
				if len(x.Lhs) == 1 && len(x.Rhs) == 1 {
					if call, ok := core.Unparen(x.Rhs[0]).(*ast.CallExpr); ok {
						callee := core.Callee(f.Pkg, call)
						if callee == fsmFam.Obj || callee == peerFam.Obj {
							if o := core.ObjOf(f.Pkg, x.Lhs[0]); o != nil {
								bs = append(bs, bound{o, call, callee == peerFam.Obj})
							}
						}
					}
				}
			case *ast.SelectorExpr:
				// direct dereference of the call result
				if call, ok := core.Unparen(x.X).(*ast.CallExpr); ok {
					callee := core.Callee(f.Pkg, call)
					if callee == fsmFam.Obj || callee == peerFam.Obj {
						c.Analysed(f)
						c.Fail(rule, f.Name()+" dereferences "+core.ExprString(call)+" directly", x.Pos(), "the lookup returns nil for families that are not configured or not IPv4/IPv6 unicast; the family comes from the wire")
					}
				}
			}
			return true
		})
		for _, b := range bs {
			c.Analysed(f)
			ast.Inspect(f.Decl.Body, func(nd ast.Node) bool {
				sel, ok := nd.(*ast.SelectorExpr)
				if !ok || core.ObjOf(f.Pkg, sel.X) != b.obj {
					return true
				}
				construct := f.Name() + " uses " + core.ExprString(sel)
				if notNil(f, sel, b.obj) {
					c.Hold(rule, construct, sel.Pos(), "dominated by a nil test of the lookup result")
					return true
				}
				if b.peer && inv {
					// covered by the FSM-side lookup for the same family
					for _, o := range bs {
						if !o.peer && len(o.call.Args) == 2 && len(b.call.Args) == 2 &&
							core.SameExpr(f.Pkg, o.call.Args[0], b.call.Args[0]) && core.SameExpr(f.Pkg, o.call.Args[1], b.call.Args[1]) && notNil(f, sel, o.obj) {
							c.Hold(rule, construct, sel.Pos(), "the FSM has this family (nil test of the FSM-side lookup for the same AFI/SAFI), and newFSM creates FSM families only from existing peer families")
							return true
						}
					}
				}
				c.Fail(rule, construct, sel.Pos(), "the result of the address family lookup is dereferenced without a nil test: a capability / message naming a family that is known but not configured on the session (or not unicast IPv4/IPv6) crashes the goroutine that handles the peer, and with it the daemon")
				return true
			})
		}
	}
}
