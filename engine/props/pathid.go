package props

import (
	"go/ast"
	"go/token"
	"go/types"

	"verif/engine/core"
)

// pathIDOpaque: an add-path identifier is an opaque 4-octet value (RFC 7911 §3): every value, 0 included, names a path.
// Whether identifiers are used at all is a property of the session (AddPathRX/TX), never of the identifier's value.
// Rule: a path identifier (route.BGPPath.PathIdentifier, packet.NLRI.PathIdentifier) is only ever compared with
// another path identifier — never with a constant, and never switched on.
func pathIDOpaque(c *core.Ctx, rule string) {
	p := c.P
	c.Floor(rule, 4)
	ids := map[*types.Var]bool{}
	for _, fv := range []*types.Var{p.Field("route", "BGPPath", "PathIdentifier"), p.Field("protocols/bgp/packet", "NLRI", "PathIdentifier")} {
		if fv != nil {
			ids[fv] = true
		}
	}
	if len(ids) == 0 {
		c.Undecided(rule, "PathIdentifier fields", token.NoPos, "anchors not found")
		return
	}
	isID := func(f *core.Fn, e ast.Expr) bool {
		e = core.Unparen(e)
		if ids[core.FieldOf(f.Pkg, e)] {
			return true
		}
		// a local copied from an identifier
		if id, ok := e.(*ast.Ident); ok {
			if o := f.Pkg.TypesInfo.ObjectOf(id); o != nil {
				defs := core.DefsOf(f, o)
				if len(defs) == 0 {
					return false
				}
				for _, d := range defs {
					if !ids[core.FieldOf(f.Pkg, d)] {
						return false
					}
				}
				return true
			}
		}
		return false
	}
	for _, f := range p.AllFuncs() {
		if f.Decl.Body == nil || isTestFn(p, f) {
			continue
		}
		ast.Inspect(f.Decl.Body, func(n ast.Node) bool {
			switch x := n.(type) {
			case *ast.BinaryExpr:
				switch x.Op {
				case token.EQL, token.NEQ, token.LSS, token.LEQ, token.GTR, token.GEQ:
				default:
					return true
				}
				l, r := isID(f, x.X), isID(f, x.Y)
				if !l && !r {
					return true
				}
				c.Analysed(f)
				other := x.Y
				if !l {
					other = x.X
				}
				isConst := core.ConstOf(f.Pkg, other) != nil
				c.Check(l && r || !isConst, rule, f.Name()+" compares a path identifier: `"+core.ExprString(x)+"`", x.Pos(),
					"a path identifier is compared with the constant "+core.ExprString(other)+": identifier values carry no meaning (0 is a valid identifier); a path announced or withdrawn with that identifier is treated as if the session had no add-path, so its sibling paths for the prefix are replaced/removed with it")
			case *ast.SwitchStmt:
				if x.Tag != nil && isID(f, x.Tag) {
					c.Analysed(f)
					c.Fail(rule, f.Name()+" switches on a path identifier", x.Pos(), "identifier values carry no meaning")
				}
			}
			return true
		})
	}
}
