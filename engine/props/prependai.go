package props

import (
	"fmt"
	"go/ast"
	"go/constant"
	"go/token"
	"go/types"
	"sort"
	"strings"

	"verif/engine/core"
)

// Abstract interpretation of route.(*BGPPath).Prepend (shared by C09 and C17).
//
// Abstract state of the path being prepended to: what its FIRST segment is.
//
//	E      the path has no segment
//	SeqLt  AS_SEQUENCE holding < 255 ASNs        SeqGe  AS_SEQUENCE holding ≥ 255 ASNs
//	SetLt  AS_SET holding < 255 ASNs             SetGe  AS_SET holding ≥ 255 ASNs
//
// The interpreter walks the statements of Prepend (helpers with the same receiver are inlined), splits on every
// condition it can evaluate in the abstract state (path empty?, type of the first segment, number of ASNs against a
// constant; &&, ||, ! and boolean helpers are evaluated structurally), treats every other condition as both ways, and
// iterates loops to a fixpoint (the state space is finite).  At each write that grows the first segment it reports:
//
//	set   – the first segment is an AS_SET (or there is none): the local ASN must go into a new leading AS_SEQUENCE
//	size  – the first segment already holds ≥ 255 ASNs: the one-octet count on the wire wraps
//
// It starts from all five states, so the verdict holds for every path the function can be called with.
type segState int

const (
	stE segState = iota
	stSeqLt
	stSeqGe
	stSetLt
	stSetGe
)

func (s segState) String() string {
	return [...]string{"empty path", "AS_SEQUENCE with < 255 ASNs", "AS_SEQUENCE with ≥ 255 ASNs", "AS_SET with < 255 ASNs", "AS_SET with ≥ 255 ASNs"}[s]
}
func (s segState) isSet() bool  { return s == stSetLt || s == stSetGe }
func (s segState) isFull() bool { return s == stSeqGe || s == stSetGe }

type aiCfg struct {
	st    segState
	snaps map[types.Object]segState // locals holding a copy of the first segment / its ASNs, with the state at copy time
}

func (c aiCfg) key() string {
	var ks []string
	for o, s := range c.snaps {
		ks = append(ks, fmt.Sprintf("%s@%d=%d", o.Name(), o.Pos(), s))
	}
	sort.Strings(ks)
	return fmt.Sprintf("%d|%s", c.st, strings.Join(ks, ","))
}

func (c aiCfg) with(st segState) aiCfg { return aiCfg{st: st, snaps: c.snaps} }
func (c aiCfg) snap(o types.Object, st segState) aiCfg {
	m := map[types.Object]segState{}
	for k, v := range c.snaps {
		m[k] = v
	}
	m[o] = st
	return aiCfg{st: c.st, snaps: m}
}

type aiViolation struct {
	kind string // "set", "size", "empty"
	pos  token.Pos
	st   segState
}

type aiRet struct {
	cfg aiCfg
	val int // 1 true, 0 false, -1 unknown / not boolean
}

type prependAI struct {
	p         *core.Prog
	pathField *types.Var // route.BGPPath.ASPath
	asnsField *types.Var // types.ASPathSegment.ASNs
	typeField *types.Var // types.ASPathSegment.Type
	insert    *core.Fn
	cSet      types.Object
	cSeq      types.Object
	viol      map[string]aiViolation
	undecided []string
	writes    int
	depth     int
}

type prependResult struct {
	Viol      []aiViolation
	Undecided []string
	Writes    int
	Fn        *core.Fn
}

var prependCache = map[*core.Ctx]*prependResult{}

func prependAbstract(c *core.Ctx) *prependResult {
	if r, ok := prependCache[c]; ok {
		return r
	}
	p := c.P
	f := c.MustFunc("route.(*BGPPath).Prepend")
	res := &prependResult{Fn: f}
	prependCache[c] = res
	if f == nil {
		res.Undecided = append(res.Undecided, "route.(*BGPPath).Prepend not found")
		return res
	}
	ai := &prependAI{p: p,
		pathField: p.Field("route", "BGPPath", "ASPath"),
		asnsField: p.Field("protocols/bgp/types", "ASPathSegment", "ASNs"),
		typeField: p.Field("protocols/bgp/types", "ASPathSegment", "Type"),
		insert:    p.Func("route.(*BGPPath).insertNewASSequence"),
		cSet:      p.Object("protocols/bgp/types", "ASSet"),
		cSeq:      p.Object("protocols/bgp/types", "ASSequence"),
		viol:      map[string]aiViolation{},
	}
	if ai.pathField == nil || ai.asnsField == nil || ai.typeField == nil || ai.cSet == nil || ai.cSeq == nil {
		res.Undecided = append(res.Undecided, "anchors (BGPPath.ASPath, ASPathSegment.ASNs/Type, ASSet/ASSequence) not found")
		return res
	}
	if ai.insert != nil {
		if why := ai.checkInsert(ai.insert); why != "" {
			ai.undecided = append(ai.undecided, "insertNewASSequence: "+why)
		}
	}
	var in []aiCfg
	for s := stE; s <= stSetGe; s++ {
		in = append(in, aiCfg{st: s})
	}
	ai.execList(f, f.Decl.Body.List, in)
	for _, v := range ai.viol {
		res.Viol = append(res.Viol, v)
	}
	sort.Slice(res.Viol, func(i, j int) bool {
		if res.Viol[i].pos != res.Viol[j].pos {
			return res.Viol[i].pos < res.Viol[j].pos
		}
		return res.Viol[i].st < res.Viol[j].st
	})
	res.Undecided = ai.undecided
	res.Writes = ai.writes
	return res
}

func (ai *prependAI) und(f *core.Fn, pos token.Pos, why string) {
	msg := ai.p.Pos(pos) + ": " + why
	for _, u := range ai.undecided {
		if u == msg {
			return
		}
	}
	ai.undecided = append(ai.undecided, msg)
}

func (ai *prependAI) violate(kind string, pos token.Pos, st segState) {
	ai.viol[fmt.Sprintf("%s|%d|%d", kind, pos, st)] = aiViolation{kind, pos, st}
}

// checkInsert: the helper puts a fresh, empty AS_SEQUENCE in front.
func (ai *prependAI) checkInsert(f *core.Fn) string {
	okLit, okStore := false, false
	ast.Inspect(f.Decl.Body, func(n ast.Node) bool {
		as, ok := n.(*ast.AssignStmt)
		if !ok || len(as.Lhs) != 1 || len(as.Rhs) != 1 {
			return true
		}
		if ie, isIdx := core.Unparen(as.Lhs[0]).(*ast.IndexExpr); isIdx {
			if v := core.ConstOf(f.Pkg, ie.Index); v != nil && v.ExactString() == "0" {
				if cl, isLit := core.Unparen(as.Rhs[0]).(*ast.CompositeLit); isLit {
					typeOK, asnsOK := false, true
					for _, el := range cl.Elts {
						kv, isKV := el.(*ast.KeyValueExpr)
						if !isKV {
							continue
						}
						switch core.ExprString(kv.Key) {
						case "Type":
							typeOK = core.ConstObjOf(f.Pkg, kv.Value) != nil && types.Object(core.ConstObjOf(f.Pkg, kv.Value)) == ai.cSeq
						case "ASNs":
							asnsOK = false
							if mk, isCall := core.Unparen(kv.Value).(*ast.CallExpr); isCall && core.ExprString(mk.Fun) == "make" && len(mk.Args) >= 2 {
								if v := core.ConstOf(f.Pkg, mk.Args[1]); v != nil && v.ExactString() == "0" {
									asnsOK = true
								}
							}
							if lit, isL := core.Unparen(kv.Value).(*ast.CompositeLit); isL && len(lit.Elts) == 0 {
								asnsOK = true
							}
							if id, isId := core.Unparen(kv.Value).(*ast.Ident); isId && id.Name == "nil" {
								asnsOK = true
							}
						}
					}
					if typeOK && asnsOK {
						okLit = true
					}
				}
			}
		}
		if core.FieldOf(f.Pkg, as.Lhs[0]) == ai.pathField {
			okStore = true
		}
		return true
	})
	if !okLit {
		return "element 0 of the new path is not a composite literal {Type: ASSequence, ASNs: empty}"
	}
	if !okStore {
		return "the new path is not stored in BGPPath.ASPath"
	}
	return ""
}

func recvObj(f *core.Fn) types.Object {
	if f.Decl.Recv == nil || len(f.Decl.Recv.List) == 0 || len(f.Decl.Recv.List[0].Names) == 0 {
		return nil
	}
	return f.Pkg.TypesInfo.Defs[f.Decl.Recv.List[0].Names[0]]
}

// isPath: e denotes the receiver's AS path value: *b.ASPath (or b.ASPath itself, for len() of a pointer deref written differently).
func (ai *prependAI) isPath(f *core.Fn, e ast.Expr) bool {
	e = core.Unparen(e)
	if st, ok := e.(*ast.StarExpr); ok {
		e = core.Unparen(st.X)
	}
	sel, ok := e.(*ast.SelectorExpr)
	if !ok || core.FieldOf(f.Pkg, sel) != ai.pathField {
		return false
	}
	return core.ObjOf(f.Pkg, sel.X) == recvObj(f) && recvObj(f) != nil
}

// firstSeg: e denotes the first segment (live) – (*b.ASPath)[0]; or a local snapshot of it.  Returns the state to use.
func (ai *prependAI) firstSeg(f *core.Fn, e ast.Expr, cfg aiCfg) (segState, bool, bool) {
	e = core.Unparen(e)
	if ie, ok := e.(*ast.IndexExpr); ok && ai.isPath(f, ie.X) {
		if v := core.ConstOf(f.Pkg, ie.Index); v != nil && v.ExactString() == "0" {
			return cfg.st, true, true
		}
		return 0, false, false
	}
	if id, ok := e.(*ast.Ident); ok {
		if o := f.Pkg.TypesInfo.ObjectOf(id); o != nil {
			if s, has := cfg.snaps[o]; has {
				return s, false, true
			}
		}
	}
	return 0, false, false
}

func cmpInterval(op token.Token, lo, hi int64, hiInf bool, k int64) int { // 1 always true, 0 always false, -1 depends
	all := func(pred func(lo, hi int64, hiInf bool) (bool, bool)) int {
		t, f := pred(lo, hi, hiInf)
		switch {
		case t && !f:
			return 1
		case f && !t:
			return 0
		}
		return -1
	}
	switch op {
	case token.GEQ:
		return all(func(lo, hi int64, inf bool) (bool, bool) { return inf || hi >= k, lo < k })
	case token.GTR:
		return all(func(lo, hi int64, inf bool) (bool, bool) { return inf || hi > k, lo <= k })
	case token.LSS:
		return all(func(lo, hi int64, inf bool) (bool, bool) { return lo < k, inf || hi >= k })
	case token.LEQ:
		return all(func(lo, hi int64, inf bool) (bool, bool) { return lo <= k, inf || hi > k })
	case token.EQL:
		return all(func(lo, hi int64, inf bool) (bool, bool) {
			in := lo <= k && (inf || k <= hi)
			single := !inf && lo == hi
			return in, !(in && single)
		})
	case token.NEQ:
		return all(func(lo, hi int64, inf bool) (bool, bool) {
			in := lo <= k && (inf || k <= hi)
			single := !inf && lo == hi
			return !(in && single), in
		})
	}
	return -1
}

func flipOp(op token.Token) token.Token {
	switch op {
	case token.LSS:
		return token.GTR
	case token.GTR:
		return token.LSS
	case token.LEQ:
		return token.GEQ
	case token.GEQ:
		return token.LEQ
	}
	return op
}

// eval returns the possible truth values of e in cfg: bit 1 = may be true, bit 2 = may be false.
func (ai *prependAI) eval(f *core.Fn, e ast.Expr, cfg aiCfg) int {
	e = core.Unparen(e)
	switch x := e.(type) {
	case *ast.Ident:
		if x.Name == "true" {
			return 1
		}
		if x.Name == "false" {
			return 2
		}
	case *ast.UnaryExpr:
		if x.Op == token.NOT {
			v := ai.eval(f, x.X, cfg)
			r := 0
			if v&1 != 0 {
				r |= 2
			}
			if v&2 != 0 {
				r |= 1
			}
			return r
		}
	case *ast.BinaryExpr:
		switch x.Op {
		case token.LAND:
			a := ai.eval(f, x.X, cfg)
			if a&1 == 0 {
				return 2 // short circuit: the right operand is not evaluated
			}
			b := ai.eval(f, x.Y, cfg)
			r := 0
			if a&1 != 0 && b&1 != 0 {
				r |= 1
			}
			if a&2 != 0 || (a&1 != 0 && b&2 != 0) {
				r |= 2
			}
			return r
		case token.LOR:
			a := ai.eval(f, x.X, cfg)
			if a&2 == 0 {
				return 1
			}
			b := ai.eval(f, x.Y, cfg)
			r := 0
			if a&1 != 0 || (a&2 != 0 && b&1 != 0) {
				r |= 1
			}
			if a&2 != 0 && b&2 != 0 {
				r |= 2
			}
			return r
		case token.EQL, token.NEQ, token.LSS, token.LEQ, token.GTR, token.GEQ:
			l, r, op := x.X, x.Y, x.Op
			if core.ConstOf(f.Pkg, l) != nil && core.ConstOf(f.Pkg, r) == nil {
				l, r, op = r, l, flipOp(op)
			}
			kv := core.ConstOf(f.Pkg, r)
			// segment type against a constant
			if sel, ok := core.Unparen(l).(*ast.SelectorExpr); ok && core.FieldOf(f.Pkg, sel) == ai.typeField && (op == token.EQL || op == token.NEQ) {
				if st, live, ok := ai.firstSeg(f, sel.X, cfg); ok {
					if live && cfg.st == stE {
						ai.violate("empty", sel.Pos(), cfg.st)
						return 0
					}
					co := core.ConstObjOf(f.Pkg, r)
					var isThat int = -1
					if co != nil && types.Object(co) == ai.cSet {
						isThat = btoi(st.isSet())
					} else if co != nil && types.Object(co) == ai.cSeq {
						isThat = btoi(!st.isSet())
					}
					if isThat >= 0 {
						if (isThat == 1) == (op == token.EQL) {
							return 1
						}
						return 2
					}
				}
			}
			if kv != nil && kv.Kind() == constant.Int {
				k, exact := constant.Int64Val(kv)
				if lc, ok := core.Unparen(l).(*ast.CallExpr); ok && exact && len(lc.Args) == 1 && core.ExprString(lc.Fun) == "len" {
					arg := core.Unparen(lc.Args[0])
					// number of segments
					if ai.isPath(f, arg) {
						var v int
						if cfg.st == stE {
							v = cmpInterval(op, 0, 0, false, k)
						} else {
							v = cmpInterval(op, 1, 0, true, k)
						}
						return triBits(v)
					}
					// number of ASNs of the first segment (live, or through a snapshot of the segment / of its ASNs)
					var st segState
					var live, ok2 bool
					if sel, isSel := arg.(*ast.SelectorExpr); isSel && core.FieldOf(f.Pkg, sel) == ai.asnsField {
						st, live, ok2 = ai.firstSeg(f, sel.X, cfg)
						if ok2 && live && cfg.st == stE {
							ai.violate("empty", sel.Pos(), cfg.st)
							return 0
						}
					} else if id, isId := arg.(*ast.Ident); isId {
						if o := f.Pkg.TypesInfo.ObjectOf(id); o != nil {
							if s, has := cfg.snaps[o]; has {
								if sl, isSl := o.Type().Underlying().(*types.Slice); isSl && sl != nil {
									st, ok2 = s, true
								}
							}
						}
					}
					if ok2 && st != stE {
						if st.isFull() {
							return triBits(cmpInterval(op, 255, 0, true, k))
						}
						return triBits(cmpInterval(op, 0, 254, false, k))
					}
				}
			}
		}
	case *ast.CallExpr:
		// boolean helper on the same receiver
		if g := ai.sameRecvCallee(f, x); g != nil && returnsBool(g) && ai.depth < 4 {
			ai.depth++
			_, rets := ai.execList(g, g.Decl.Body.List, []aiCfg{{st: cfg.st}})
			ai.depth--
			r := 0
			for _, rt := range rets {
				if rt.cfg.st != cfg.st {
					ai.und(f, x.Pos(), "a helper used in a condition changes the path")
				}
				switch rt.val {
				case 1:
					r |= 1
				case 0:
					r |= 2
				default:
					r |= 3
				}
			}
			if r != 0 {
				return r
			}
		}
	}
	return 3
}

func triBits(v int) int {
	switch v {
	case 1:
		return 1
	case 0:
		return 2
	}
	return 3
}

func (ai *prependAI) sameRecvCallee(f *core.Fn, call *ast.CallExpr) *core.Fn {
	sel, ok := call.Fun.(*ast.SelectorExpr)
	if !ok || recvObj(f) == nil || core.ObjOf(f.Pkg, sel.X) != recvObj(f) {
		return nil
	}
	g := ai.p.FnOf(core.Callee(f.Pkg, call))
	if g == nil || g.Decl.Body == nil || g.Decl.Recv == nil {
		return nil
	}
	return g
}

func dedup(in []aiCfg) []aiCfg {
	seen := map[string]bool{}
	var out []aiCfg
	for _, c := range in {
		if k := c.key(); !seen[k] {
			seen[k] = true
			out = append(out, c)
		}
	}
	return out
}

// execList runs the statements on every configuration; returns the fall-through configurations and the returns.
func (ai *prependAI) execList(f *core.Fn, list []ast.Stmt, in []aiCfg) ([]aiCfg, []aiRet) {
	cur := dedup(in)
	var rets []aiRet
	for _, s := range list {
		if len(cur) == 0 {
			break
		}
		var r []aiRet
		cur, r = ai.exec(f, s, cur)
		rets = append(rets, r...)
	}
	return cur, rets
}

type loopExit struct{ brk, cont []aiCfg }

func (ai *prependAI) exec(f *core.Fn, s ast.Stmt, in []aiCfg) ([]aiCfg, []aiRet) {
	switch x := s.(type) {
	case *ast.BlockStmt:
		return ai.execList(f, x.List, in)
	case *ast.ReturnStmt:
		var rets []aiRet
		for _, c := range in {
			val := -1
			if len(x.Results) == 1 && returnsBool(f) {
				switch ai.eval(f, x.Results[0], c) {
				case 1:
					val = 1
				case 2:
					val = 0
				case 3:
					rets = append(rets, aiRet{c, 1}, aiRet{c, 0})
					continue
				}
			}
			rets = append(rets, aiRet{c, val})
		}
		return nil, rets
	case *ast.IfStmt:
		cur := in
		var rets []aiRet
		if x.Init != nil {
			var r []aiRet
			cur, r = ai.exec(f, x.Init, cur)
			rets = append(rets, r...)
		}
		var tIn, fIn []aiCfg
		for _, c := range cur {
			v := ai.eval(f, x.Cond, c)
			if v&1 != 0 {
				tIn = append(tIn, c)
			}
			if v&2 != 0 {
				fIn = append(fIn, c)
			}
		}
		tOut, r1 := ai.execList(f, x.Body.List, tIn)
		rets = append(rets, r1...)
		fOut := fIn
		if x.Else != nil {
			var r2 []aiRet
			fOut, r2 = ai.exec(f, x.Else, fIn)
			rets = append(rets, r2...)
		}
		return dedup(append(tOut, fOut...)), rets
	case *ast.ForStmt:
		cur := in
		var rets []aiRet
		if x.Init != nil {
			var r []aiRet
			cur, r = ai.exec(f, x.Init, cur)
			rets = append(rets, r...)
		}
		return ai.loop(f, x.Cond, x.Body, x.Post, cur, rets)
	case *ast.RangeStmt:
		if ai.mentionsPath(f, x.X) {
			ai.und(f, x.Pos(), "range over the path inside Prepend is not modelled")
		}
		return ai.loop(f, nil, x.Body, nil, in, nil)
	case *ast.ExprStmt:
		call, ok := x.X.(*ast.CallExpr)
		if !ok {
			return in, nil
		}
		return ai.execCall(f, call, in)
	case *ast.AssignStmt:
		return ai.execAssign(f, x, in), nil
	case *ast.DeclStmt:
		gd, ok := x.Decl.(*ast.GenDecl)
		if !ok {
			return in, nil
		}
		cur := in
		for _, sp := range gd.Specs {
			vs, ok := sp.(*ast.ValueSpec)
			if !ok || len(vs.Names) != len(vs.Values) {
				continue
			}
			for i := range vs.Names {
				cur = ai.bind(f, vs.Names[i], vs.Values[i], cur)
			}
		}
		return cur, nil
	case *ast.IncDecStmt, *ast.EmptyStmt:
		return in, nil
	case *ast.BranchStmt:
		ai.und(f, x.Pos(), "break/continue/goto inside Prepend is not modelled")
		return in, nil
	case *ast.SwitchStmt:
		// every clause may run, or none
		if ai.mentionsPathStmt(f, x) {
			out := append([]aiCfg{}, in...)
			var rets []aiRet
			for _, cl := range x.Body.List {
				o, r := ai.execList(f, cl.(*ast.CaseClause).Body, in)
				out = append(out, o...)
				rets = append(rets, r...)
			}
			return dedup(out), rets
		}
		return in, nil
	default:
		if ai.mentionsPathStmt(f, s) {
			ai.und(f, s.Pos(), fmt.Sprintf("statement %T touching the path is not modelled", s))
		}
		return in, nil
	}
}

func (ai *prependAI) loop(f *core.Fn, cond ast.Expr, body *ast.BlockStmt, post ast.Stmt, in []aiCfg, rets []aiRet) ([]aiCfg, []aiRet) {
	seen := map[string]bool{}
	var exit []aiCfg
	work := dedup(in)
	for len(work) > 0 {
		var next []aiCfg
		var enter []aiCfg
		for _, c := range work {
			if seen[c.key()] {
				continue
			}
			seen[c.key()] = true
			v := 3
			if cond != nil {
				v = ai.eval(f, cond, c)
			}
			if v&1 != 0 {
				enter = append(enter, c)
			}
			if v&2 != 0 {
				exit = append(exit, c)
			}
		}
		out, r := ai.execList(f, body.List, enter)
		rets = append(rets, r...)
		if post != nil {
			out, _ = ai.exec(f, post, out)
		}
		next = append(next, out...)
		work = dedup(next)
	}
	return dedup(exit), rets
}

func (ai *prependAI) mentionsPath(f *core.Fn, e ast.Expr) bool {
	return e != nil && core.NodeHas(e, func(n ast.Node) bool {
		ex, ok := n.(ast.Expr)
		return ok && core.FieldOf(f.Pkg, ex) == ai.pathField
	})
}

func (ai *prependAI) mentionsPathStmt(f *core.Fn, s ast.Stmt) bool {
	return core.NodeHas(s, func(n ast.Node) bool {
		ex, ok := n.(ast.Expr)
		return ok && core.FieldOf(f.Pkg, ex) == ai.pathField
	})
}

func (ai *prependAI) execCall(f *core.Fn, call *ast.CallExpr, in []aiCfg) ([]aiCfg, []aiRet) {
	callee := core.Callee(f.Pkg, call)
	if ai.insert != nil && callee == ai.insert.Obj {
		if sel, ok := call.Fun.(*ast.SelectorExpr); ok && core.ObjOf(f.Pkg, sel.X) == recvObj(f) {
			var out []aiCfg
			for _, c := range in {
				out = append(out, c.with(stSeqLt))
			}
			return dedup(out), nil
		}
	}
	if g := ai.sameRecvCallee(f, call); g != nil && ai.depth < 4 {
		ai.depth++
		var out []aiCfg
		for _, c := range in {
			o, rets := ai.execList(g, g.Decl.Body.List, []aiCfg{{st: c.st}})
			for _, oc := range o {
				out = append(out, c.with(oc.st))
			}
			for _, r := range rets {
				out = append(out, c.with(r.cfg.st))
			}
		}
		ai.depth--
		return dedup(out), nil
	}
	// anything else handed the path itself could change it
	for _, a := range call.Args {
		if ai.isPath(f, a) || core.FieldOf(f.Pkg, a) == ai.pathField {
			if fn, ok := call.Fun.(*ast.Ident); ok && (fn.Name == "len" || fn.Name == "cap") {
				continue
			}
			ai.und(f, call.Pos(), "the path is handed to "+core.ExprString(call.Fun)+", whose effect is not modelled")
		}
	}
	return in, nil
}

func (ai *prependAI) bind(f *core.Fn, lhs ast.Expr, rhs ast.Expr, in []aiCfg) []aiCfg {
	id, ok := core.Unparen(lhs).(*ast.Ident)
	if !ok || id.Name == "_" {
		return in
	}
	o := f.Pkg.TypesInfo.ObjectOf(id)
	if o == nil {
		return in
	}
	r := core.Unparen(rhs)
	// copy of the first segment, or of its ASNs
	var segExpr ast.Expr
	if sel, isSel := r.(*ast.SelectorExpr); isSel && core.FieldOf(f.Pkg, sel) == ai.asnsField {
		segExpr = sel.X
	} else {
		segExpr = r
	}
	var out []aiCfg
	for _, c := range in {
		if st, live, ok := ai.firstSeg(f, segExpr, c); ok {
			if live && c.st == stE {
				ai.violate("empty", rhs.Pos(), c.st)
				continue // the program panics here
			}
			out = append(out, c.snap(o, st))
			continue
		}
		if _, had := c.snaps[o]; had {
			m := c.snap(o, 0)
			delete(m.snaps, o)
			out = append(out, m)
			continue
		}
		out = append(out, c)
	}
	return dedup(out)
}

// growsByOne: rhs is the old ASNs of the first segment (state st at snapshot time must be the current one) plus one element.
func (ai *prependAI) growsByOne(f *core.Fn, rhs ast.Expr, cfg aiCfg) bool {
	isOld := func(e ast.Expr) bool {
		e = core.Unparen(e)
		if sel, ok := e.(*ast.SelectorExpr); ok && core.FieldOf(f.Pkg, sel) == ai.asnsField {
			_, _, ok := ai.firstSeg(f, sel.X, cfg)
			return ok
		}
		if id, ok := e.(*ast.Ident); ok {
			if o := f.Pkg.TypesInfo.ObjectOf(id); o != nil {
				_, has := cfg.snaps[o]
				return has
			}
		}
		return false
	}
	lenPlus1 := func(e ast.Expr) bool {
		be, ok := core.Unparen(e).(*ast.BinaryExpr)
		if !ok || be.Op != token.ADD {
			return false
		}
		a, b := be.X, be.Y
		if core.ConstOf(f.Pkg, a) != nil {
			a, b = b, a
		}
		v := core.ConstOf(f.Pkg, b)
		lc, isCall := core.Unparen(a).(*ast.CallExpr)
		return v != nil && v.ExactString() == "1" && isCall && len(lc.Args) == 1 && core.ExprString(lc.Fun) == "len" && isOld(lc.Args[0])
	}
	var check func(e ast.Expr, depth int) bool
	check = func(e ast.Expr, depth int) bool {
		e = core.Unparen(e)
		switch x := e.(type) {
		case *ast.CallExpr:
			fn := core.ExprString(x.Fun)
			if fn == "make" && len(x.Args) >= 2 {
				return lenPlus1(x.Args[1])
			}
			if fn == "append" && len(x.Args) == 2 {
				if x.Ellipsis.IsValid() {
					// append([]uint32{asn}, old...)
					if lit, ok := core.Unparen(x.Args[0]).(*ast.CompositeLit); ok && len(lit.Elts) == 1 && isOld(x.Args[1]) {
						return true
					}
					return false
				}
				return isOld(x.Args[0]) // append(old, asn)
			}
		case *ast.Ident:
			if depth > 2 {
				return false
			}
			o := f.Pkg.TypesInfo.ObjectOf(x)
			defs := core.DefsOf(f, o)
			if len(defs) == 0 {
				return false
			}
			for _, d := range defs {
				if !check(d, depth+1) {
					return false
				}
			}
			return true
		}
		return false
	}
	return check(rhs, 0)
}

func (ai *prependAI) execAssign(f *core.Fn, as *ast.AssignStmt, in []aiCfg) []aiCfg {
	cur := in
	if len(as.Lhs) != len(as.Rhs) {
		for _, l := range as.Lhs {
			if ai.mentionsPath(f, l) {
				ai.und(f, as.Pos(), "multi-value assignment to the path is not modelled")
			}
		}
		return cur
	}
	for i, l := range as.Lhs {
		lhs := core.Unparen(l)
		rhs := as.Rhs[i]
		if _, isId := lhs.(*ast.Ident); isId {
			cur = ai.bind(f, lhs, rhs, cur)
			continue
		}
		if !ai.mentionsPath(f, lhs) {
			// element writes into snapshots of the ASNs (asns[0] = asn) do not change the model
			continue
		}
		// (*b.ASPath)[0].ASNs = …
		if sel, ok := lhs.(*ast.SelectorExpr); ok && core.FieldOf(f.Pkg, sel) == ai.asnsField {
			if ie, ok := core.Unparen(sel.X).(*ast.IndexExpr); ok && ai.isPath(f, ie.X) {
				if v := core.ConstOf(f.Pkg, ie.Index); v != nil && v.ExactString() == "0" {
					ai.writes++
					var out []aiCfg
					for _, c := range cur {
						if !ai.growsByOne(f, rhs, c) {
							ai.und(f, as.Pos(), "the first segment is replaced by "+core.ExprString(rhs)+", which is not recognised as its old ASNs plus one")
							out = append(out, c)
							continue
						}
						switch {
						case c.st == stE:
							ai.violate("empty", as.Pos(), c.st)
							continue
						case c.st.isSet():
							ai.violate("set", as.Pos(), c.st)
						}
						if c.st.isFull() {
							ai.violate("size", as.Pos(), c.st)
							out = append(out, c)
							continue
						}
						// < 255 → stays below or reaches 255
						if c.st == stSeqLt {
							out = append(out, c.with(stSeqLt), c.with(stSeqGe))
						} else {
							out = append(out, c.with(stSetLt), c.with(stSetGe))
						}
					}
					cur = dedup(out)
					continue
				}
			}
		}
		// b.ASPathLen etc. do not reach here (different field); any other write through the path is unmodelled
		ai.und(f, as.Pos(), "write to "+core.ExprString(lhs)+" is not modelled")
	}
	return cur
}
