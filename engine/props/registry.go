// Package props holds the rule instances per property (anchors as typed references, spec tables, floors).
package props

import (
	"sort"

	"verif/engine/core"
)

// Control is a mutation control: a textual edit of one repository file, applied through a go/packages overlay
// (never on disk), that breaks the property in a way the named rule must report.  If the anchor text is no longer
// present exactly once the control is skipped (the code it was written against changed), never failed.
type Control struct {
	Name            string
	File            string // relative to the repository root
	Old             string
	New             string
	Expect          string // rule name that must report a violation under the mutation
	ExpectConstruct string // optional substring of the construct
	Silent          bool   // negative control: a behaviour-preserving rewrite on which the check must raise nothing new
}

// Prop is a registered property check.
type Prop struct {
	Meta     core.Meta
	Run      func(c *core.Ctx)
	Controls []Control
}

var registry = map[string]*Prop{}

// Register adds a property check.
func Register(p *Prop) { registry[p.Meta.ID] = p }

// Get returns a property check by id.
func Get(id string) *Prop { return registry[id] }

// All returns all registered checks sorted by id.
func All() []*Prop {
	var out []*Prop
	for _, p := range registry {
		out = append(out, p)
	}
	sort.Slice(out, func(i, j int) bool { return out[i].Meta.ID < out[j].Meta.ID })
	return out
}

var stdTrusted = []string{
	"go/parser, go/types (Go toolchain on PATH)",
	"golang.org/x/tools v0.29.0: go/packages, go/cfg, go/ssa, typeutil",
	"the rule implementations in /verif/engine (each exercised by mutation controls in the thorough tier)",
	"the spec tables in /verif/engine/props (transcribed from the property statements and the RFCs they cite)",
}

// NotApplicable gives the reason for properties that are deliberately not claimed.
var NotApplicable = map[string]string{}
