package props

import (
	"go/ast"
	"go/token"
	"go/types"

	"verif/engine/core"
)

// removeExactlyOne: fn takes the element equal to its parameter out of the list held in `field` and nothing else.
// Accepted shapes (enumerated from the repository and the usual Go idioms):
//
//	(A) filter copy   out := make(T, 0, …) | nil | T{};  for _, e := range F { if e != x { out = append(out, e) } };  F = out
//	                  — the append is controlled by exactly `e != x`, the loop has no early exit
//	(B) in-place      for i := range F { … F[i] == x … one of the sliceDeletion idioms on index i … }
func removeExactlyOne(c *core.Ctx, rule string, fn *core.Fn, field *types.Var, what string) {
	if fn == nil || field == nil {
		c.Check(false, rule, "anchors", 0, "function or field not found")
		return
	}
	c.Analysed(fn)
	par := core.ParamObj(fn, 0)
	isNeqParam := func(ft core.Fact, cur types.Object, idx types.Object) (neq, eq bool) {
		be, ok := ft.Expr.(*ast.BinaryExpr)
		if !ok || (be.Op != token.NEQ && be.Op != token.EQL) {
			return
		}
		isElem := func(e ast.Expr) bool {
			e = core.Unparen(e)
			if cur != nil && core.ObjOf(fn.Pkg, e) == cur {
				return true
			}
			if ie, ok := e.(*ast.IndexExpr); ok && core.FieldOf(fn.Pkg, ie.X) == field && idx != nil && core.ObjOf(fn.Pkg, ie.Index) == idx {
				return true
			}
			return false
		}
		isPar := func(e ast.Expr) bool { return par != nil && core.ObjOf(fn.Pkg, e) == par }
		if !(isElem(be.X) && isPar(be.Y) || isElem(be.Y) && isPar(be.X)) {
			return
		}
		ne := be.Op == token.NEQ
		if !ft.Truth {
			ne = !ne
		}
		return ne, !ne
	}
	// stores to the field
	var stores []*ast.AssignStmt
	ast.Inspect(fn.Decl.Body, func(n ast.Node) bool {
		if as, ok := n.(*ast.AssignStmt); ok && len(as.Lhs) == 1 && len(as.Rhs) == 1 && core.FieldOf(fn.Pkg, as.Lhs[0]) == field {
			stores = append(stores, as)
		}
		return true
	})
	if len(stores) == 0 {
		c.Check(false, rule, fn.Name()+" "+what, fn.Decl.Pos(), "the function never stores a new list: nothing is removed")
		return
	}
	// (A) filter copy
	okA := false
	if len(stores) == 1 {
		if id, ok := core.Unparen(stores[0].Rhs[0]).(*ast.Ident); ok {
			out := core.ObjOf(fn.Pkg, id)
			good, appends := true, 0
			for _, d := range core.DefsOf(fn, out) {
				switch x := core.Unparen(d).(type) {
				case *ast.CallExpr:
					fid, _ := x.Fun.(*ast.Ident)
					switch {
					case fid != nil && fid.Name == "make" && len(x.Args) >= 2:
						if v := core.ConstOf(fn.Pkg, x.Args[1]); v == nil || v.ExactString() != "0" {
							good = false
						}
					case fid != nil && fid.Name == "append" && len(x.Args) == 2 && core.ObjOf(fn.Pkg, x.Args[0]) == out && x.Ellipsis == token.NoPos:
						appends++
						// enclosing range over the field with the cursor appended
						var loop *ast.RangeStmt
						ast.Inspect(fn.Decl.Body, func(n ast.Node) bool {
							if rs, ok := n.(*ast.RangeStmt); ok && core.FieldOf(fn.Pkg, rs.X) == field && rs.Body.Pos() <= x.Pos() && x.End() <= rs.Body.End() {
								loop = rs
							}
							return true
						})
						if loop == nil || loop.Value == nil || core.ObjOf(fn.Pkg, x.Args[1]) != core.ObjOf(fn.Pkg, loop.Value) || len(loopExits(loop.Body)) > 0 {
							good = false
							break
						}
						cur := core.ObjOf(fn.Pkg, loop.Value)
						nf, neqs := 0, 0
						for _, ft := range core.CtlFactsAt(fn, x) {
							if ft.Expr == nil || ft.Expr.Pos() < loop.Body.Pos() || ft.Expr.End() > loop.Body.End() {
								continue
							}
							nf++
							if ne, _ := isNeqParam(ft, cur, nil); ne {
								neqs++
							}
						}
						if nf != 1 || neqs != 1 {
							good = false
						}
					default:
						good = false
					}
				case *ast.CompositeLit:
					if len(x.Elts) != 0 {
						good = false
					}
				case *ast.Ident:
					if x.Name != "nil" {
						good = false
					}
				default:
					good = false
				}
			}
			okA = good && appends == 1
		}
	}
	if okA {
		c.Check(true, rule, fn.Name()+" "+what, fn.Decl.Pos(), "")
		return
	}
	// (B) in-place deletion at the matched index
	var loop *ast.RangeStmt
	ast.Inspect(fn.Decl.Body, func(n ast.Node) bool {
		if rs, ok := n.(*ast.RangeStmt); ok && loop == nil && core.FieldOf(fn.Pkg, rs.X) == field {
			loop = rs
		}
		return true
	})
	if loop == nil || loop.Key == nil {
		c.Check(false, rule, fn.Name()+" "+what, fn.Decl.Pos(), "neither a filter copy (append of every element that differs from the argument) nor an indexed in-place deletion was recognised: elements other than the requested one may leave the list, or the requested one may stay")
		return
	}
	idx := core.ObjOf(fn.Pkg, loop.Key)
	var cur types.Object
	if loop.Value != nil {
		cur = core.ObjOf(fn.Pkg, loop.Value)
	}
	isIdx := func(e ast.Expr) bool { return e != nil && idx != nil && core.ObjOf(fn.Pkg, e) == idx }
	ok, wrong, pos := sliceDeletion(fn, field, isIdx, loop.Body)
	if ok {
		// the deletion sits under "this element is the requested one"
		for _, st := range stores {
			matched := false
			for _, ft := range core.FactsAt(fn, st) {
				if _, eq := isNeqParam(ft, cur, idx); eq {
					matched = true
				}
			}
			if !matched {
				ok, wrong, pos = false, "the deletion is not guarded by `element == argument`", st.Pos()
			}
		}
	}
	c.Check(ok, rule, fn.Name()+" "+what, pos, wrong+": taking one entry out of the list drops others with it (or leaves it in)")
}
