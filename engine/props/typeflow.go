package props

import (
	"fmt"
	"go/ast"
	"go/token"
	"go/types"
	"sort"
	"strings"

	"golang.org/x/tools/go/cfg"

	"verif/engine/core"
)

// Producer/consumer dynamic-type agreement for the discriminated unions of the BGP codec:
// a struct with a discriminant field D and an interface-typed value field V.  The table D ↦ {Go types stored in V}
// is derived on every run from the decoder's own stores per arm of its switch on D and from the composite literals
// that construct such values; every unchecked type assertion on V must assert exactly the type stored for every
// discriminant value that can reach it.

type union struct {
	pkg, typ, disc, val string
	producer            string // function whose switch on disc stores val
}

var bgpUnions = []union{
	{"protocols/bgp/packet", "PathAttribute", "TypeCode", "Value", "protocols/bgp/packet.decodePathAttr"},
	{"protocols/bgp/packet", "Capability", "Code", "Value", "protocols/bgp/packet.decodeCapability"},
	{"protocols/bgp/packet", "OptParam", "Type", "Value", "protocols/bgp/packet.decodeOptParams"},
}

type unionTable struct {
	u       union
	discF   *types.Var
	valF    *types.Var
	byConst map[string]map[string]bool // const name → type strings
	other   map[string]bool            // default arm
	handled map[string]bool
	consts  map[string]*types.Const
}

// reachingStoreTypes: types stored into field valF at the success returns of f (methods called on the same receiver followed).
func reachingStoreTypes(p *core.Prog, f *core.Fn, valF *types.Var, depth int) map[string]bool {
	out := map[string]bool{}
	if f == nil || f.Decl.Body == nil || depth > 4 {
		return out
	}
	g := p.CFG(f)
	type st = map[string]bool
	in := map[*cfg.Block]st{}
	if len(g.Blocks) == 0 {
		return out
	}
	in[g.Blocks[0]] = st{"<unset>": true}
	nodeEffect := func(n ast.Node, s st) st {
		cur := s
		core.InspectNoLit(n, func(x ast.Node) bool {
			switch a := x.(type) {
			case *ast.AssignStmt:
				for i, l := range a.Lhs {
					if core.FieldOf(f.Pkg, l) == valF && i < len(a.Rhs) {
						if t := f.Pkg.TypesInfo.TypeOf(a.Rhs[i]); t != nil {
							cur = st{t.String(): true}
						}
					}
				}
			case *ast.CallExpr:
				if g2 := p.FnOf(core.Callee(f.Pkg, a)); g2 != nil && g2 != f && g2.Decl.Recv != nil {
					if se, ok := a.Fun.(*ast.SelectorExpr); ok {
						if t := f.Pkg.TypesInfo.TypeOf(se.X); t != nil && strings.Contains(t.String(), valF.Pkg().Path()) {
							sub := reachingStoreTypes(p, g2, valF, depth+1)
							if len(sub) > 0 && !(len(sub) == 1 && sub["<unset>"]) {
								ns := st{}
								for k := range sub {
									if k == "<unset>" {
										for c := range cur {
											ns[c] = true
										}
									} else {
										ns[k] = true
									}
								}
								cur = ns
							}
						}
					}
				}
			}
			return true
		})
		return cur
	}
	for changed, iter := true, 0; changed && iter < 30; iter++ {
		changed = false
		for _, b := range g.Blocks {
			if !b.Live || in[b] == nil {
				continue
			}
			s := in[b]
			for _, n := range b.Nodes {
				s = nodeEffect(n, s)
			}
			for _, sc := range b.Succs {
				if in[sc] == nil {
					in[sc] = st{}
				}
				for k := range s {
					if !in[sc][k] {
						in[sc][k] = true
						changed = true
					}
				}
			}
		}
	}
	for _, b := range g.Blocks {
		if !b.Live || in[b] == nil {
			continue
		}
		s := in[b]
		for _, n := range b.Nodes {
			if ret, ok := n.(*ast.ReturnStmt); ok {
				success := true
				if len(ret.Results) > 0 {
					last := ret.Results[len(ret.Results)-1]
					if t := f.Pkg.TypesInfo.TypeOf(last); t != nil && t.String() == "error" && !core.IsNilIdent(f.Pkg, last) {
						success = false
					}
					// `return err` style
					if id, ok := core.Unparen(last).(*ast.Ident); ok && id.Name == "err" {
						success = false
					}
					if call, ok := core.Unparen(last).(*ast.CallExpr); ok {
						if t := f.Pkg.TypesInfo.TypeOf(call); t != nil && t.String() == "error" {
							// tail call returning an error: its own success stores count
							if g2 := p.FnOf(core.Callee(f.Pkg, call)); g2 != nil {
								sub := reachingStoreTypes(p, g2, valF, depth+1)
								for k := range sub {
									if k == "<unset>" {
										for c := range s {
											out[c] = true
										}
									} else {
										out[k] = true
									}
								}
								success = false
							}
						}
					}
				}
				if success {
					for k := range s {
						out[k] = true
					}
				}
			}
			s = nodeEffect(n, s)
		}
		if len(b.Succs) == 0 {
			// falling off the end
			hasRet := false
			for _, n := range b.Nodes {
				if _, ok := n.(*ast.ReturnStmt); ok {
					hasRet = true
				}
			}
			if !hasRet {
				for k := range s {
					out[k] = true
				}
			}
		}
	}
	return out
}

func buildUnionTable(c *core.Ctx, u union) *unionTable {
	p := c.P
	t := &unionTable{u: u, discF: p.Field(u.pkg, u.typ, u.disc), valF: p.Field(u.pkg, u.typ, u.val), byConst: map[string]map[string]bool{}, other: map[string]bool{}, handled: map[string]bool{}, consts: map[string]*types.Const{}}
	pf := c.MustFunc(u.producer)
	if t.discF == nil || t.valF == nil || pf == nil {
		c.Undecided("anchor", u.pkg+"."+u.typ, token.NoPos, "union fields / producer not found")
		return nil
	}
	c.Analysed(pf)
	add := func(m map[string]bool, ts map[string]bool) {
		for k := range ts {
			if k != "<unset>" {
				m[k] = true
			}
		}
	}
	found := false
	ast.Inspect(pf.Decl.Body, func(n ast.Node) bool {
		sw, ok := n.(*ast.SwitchStmt)
		if !ok || sw.Tag == nil || core.FieldOf(pf.Pkg, sw.Tag) != t.discF {
			return true
		}
		found = true
		for _, cs := range sw.Body.List {
			cc := cs.(*ast.CaseClause)
			// types stored in this clause: direct stores + methods called on the union value
			ts := map[string]bool{}
			for _, st := range cc.Body {
				ast.Inspect(st, func(m ast.Node) bool {
					switch a := m.(type) {
					case *ast.AssignStmt:
						for i, l := range a.Lhs {
							if core.FieldOf(pf.Pkg, l) == t.valF && i < len(a.Rhs) {
								if ty := pf.Pkg.TypesInfo.TypeOf(a.Rhs[i]); ty != nil {
									ts[ty.String()] = true
								}
							}
						}
					case *ast.CallExpr:
						if g := p.FnOf(core.Callee(pf.Pkg, a)); g != nil && g.Decl.Recv != nil && core.RecvName(g.Obj) == u.typ {
							add(ts, reachingStoreTypes(p, g, t.valF, 0))
						}
					}
					return true
				})
			}
			if cc.List == nil {
				add(t.other, ts)
				continue
			}
			for _, e := range cc.List {
				if co := core.ConstObjOf(pf.Pkg, e); co != nil {
					t.handled[co.Name()] = true
					t.consts[co.Name()] = co
					if t.byConst[co.Name()] == nil {
						t.byConst[co.Name()] = map[string]bool{}
					}
					add(t.byConst[co.Name()], ts)
				}
			}
		}
		return false
	})
	if !found {
		c.Undecided("union-types", u.producer+" switch on "+u.disc, pf.Decl.Pos(), "producer switch not found")
		return nil
	}
	// constructors: composite literals {disc: C, val: V} anywhere in the repository
	for _, f := range p.AllFuncs() {
		if f.Decl.Body == nil {
			continue
		}
		ast.Inspect(f.Decl.Body, func(n ast.Node) bool {
			cl, ok := n.(*ast.CompositeLit)
			if !ok {
				return true
			}
			ty := f.Pkg.TypesInfo.TypeOf(cl)
			if ty == nil {
				return true
			}
			nt, ok := ty.(*types.Named)
			if !ok || nt.Obj().Name() != u.typ || nt.Obj().Pkg() == nil || !strings.HasSuffix(nt.Obj().Pkg().Path(), u.pkg) {
				return true
			}
			var dc *types.Const
			var vt types.Type
			for _, e := range cl.Elts {
				kv, ok := e.(*ast.KeyValueExpr)
				if !ok {
					continue
				}
				id, _ := kv.Key.(*ast.Ident)
				if id == nil {
					continue
				}
				if id.Name == u.disc {
					dc = core.ConstObjOf(f.Pkg, kv.Value)
				}
				if id.Name == u.val {
					vt = f.Pkg.TypesInfo.TypeOf(kv.Value)
				}
			}
			if dc != nil && vt != nil {
				if t.byConst[dc.Name()] == nil {
					t.byConst[dc.Name()] = map[string]bool{}
				}
				t.byConst[dc.Name()][vt.String()] = true
				t.consts[dc.Name()] = dc
			}
			return true
		})
	}
	return t
}

// discriminantsAt: which discriminant constants can reach node n in f for the union value rooted at base expression e.
// Returns (names, isDefaultArm(handled set), ok).
func (t *unionTable) discriminantsAt(f *core.Fn, n ast.Node, e ast.Expr) (names []string, others bool, excluded map[string]bool, ok bool) {
	excluded = map[string]bool{}
	for _, ft := range core.FactsAt(f, n) {
		if ft.Tag != nil && core.FieldOf(f.Pkg, ft.Tag) == t.discF && sameBase(f, ft.Tag, e) {
			if ft.Truth {
				for _, v := range ft.Vals {
					if co := core.ConstObjOf(f.Pkg, v); co != nil {
						names = append(names, co.Name())
					}
				}
				return names, false, nil, true
			}
			for _, v := range ft.Vals {
				if co := core.ConstObjOf(f.Pkg, v); co != nil {
					excluded[co.Name()] = true
				}
			}
			others, ok = true, true
		}
		if be, isB := ft.Expr.(*ast.BinaryExpr); isB && be.Op == token.EQL {
			x, y := be.X, be.Y
			if core.FieldOf(f.Pkg, y) == t.discF {
				x, y = y, x
			}
			if core.FieldOf(f.Pkg, x) == t.discF && sameBase(f, x, e) {
				if co := core.ConstObjOf(f.Pkg, y); co != nil {
					if ft.Truth {
						return []string{co.Name()}, false, nil, true
					}
					excluded[co.Name()] = true
				}
			}
		}
	}
	return names, others, excluded, ok
}

// sameBase: discriminant selector d (X.disc) and value base e (X) are about the same object.
func sameBase(f *core.Fn, d ast.Expr, e ast.Expr) bool {
	se, ok := core.Unparen(d).(*ast.SelectorExpr)
	return ok && core.SameExpr(f.Pkg, se.X, e)
}

// checkUnionConsumers checks every unchecked assertion on the union's value field in the given functions.
func checkUnionConsumers(c *core.Ctx, rule string, t *unionTable, fns []*core.Fn) int {
	p := c.P
	count := 0
	for _, f := range fns {
		if f.Decl.Body == nil {
			continue
		}
		for _, o := range core.PanicOps(f) {
			if o.Kind != "type-assert" {
				continue
			}
			ta := o.Node.(*ast.TypeAssertExpr)
			vs, ok := core.Unparen(ta.X).(*ast.SelectorExpr)
			if !ok || core.FieldOf(f.Pkg, vs) != t.valF {
				continue
			}
			count++
			asserted := f.Pkg.TypesInfo.TypeOf(ta.Type)
			construct := fmt.Sprintf("%s assertion #%d %s", f.Name(), o.Ord, core.ExprString(ta))
			// same-function dominating store (decoder building the value step by step)
			if st := lastStoreType(f, vs, ta); st != "" {
				c.Check(st == asserted.String(), rule, construct, ta.Pos(), "asserts "+asserted.String()+" but the dominating store in this function puts "+st+" there")
				continue
			}
			names, others, excluded, ok := t.discriminantsAt(f, ta, vs.X)
			if !ok {
				// through the callers: f's parameter carries the union value
				names, others, excluded, ok = t.discriminantsViaCallers(p, f, vs.X)
			}
			if !ok {
				c.Fail(rule, construct, ta.Pos(), "unchecked type assertion on "+t.u.typ+"."+t.u.val+" that is not dominated by a test of "+t.u.disc+": the peer chooses the "+t.u.disc+", so it chooses the dynamic type; a mismatch panics and the daemon has no recover")
				continue
			}
			var bad []string
			checkOne := func(name string, ts map[string]bool) {
				if len(ts) == 0 {
					bad = append(bad, name+"→(no value stored)")
					return
				}
				for tstr := range ts {
					if tstr != asserted.String() {
						bad = append(bad, name+"→"+tstr)
					}
				}
			}
			if others {
				// every discriminant the consumer did not single out: the producer's own arms not excluded, plus its default
				for name, ts := range t.byConst {
					if !excluded[name] && t.handled[name] {
						checkOne(name, ts)
					}
				}
				checkOne("(any other "+t.u.disc+")", t.other)
			} else {
				for _, name := range names {
					ts := t.byConst[name]
					if !t.handled[name] && len(ts) == 0 {
						ts = t.other
					}
					if !t.handled[name] {
						// the producer treats it as unknown: default arm type, plus constructors
						merged := map[string]bool{}
						for k := range t.other {
							merged[k] = true
						}
						for k := range t.byConst[name] {
							merged[k] = true
						}
						ts = merged
					}
					checkOne(name, ts)
				}
			}
			sort.Strings(bad)
			c.Check(len(bad) == 0, rule, construct, ta.Pos(),
				"asserts "+asserted.String()+" but for a "+t.u.disc+" that reaches this site the producer stores another dynamic type ("+strings.Join(bad, ", ")+"): a peer that sends that "+t.u.disc+" makes this assertion panic — the process has no recover, all sessions die")
		}
	}
	return count
}

func lastStoreType(f *core.Fn, vs *ast.SelectorExpr, at ast.Node) string {
	var best *ast.AssignStmt
	var bi int
	path := core.PathTo(f.Decl.Body, at)
	ast.Inspect(f.Decl.Body, func(n ast.Node) bool {
		as, ok := n.(*ast.AssignStmt)
		if !ok || as.End() > at.Pos() {
			return true
		}
		for i, l := range as.Lhs {
			if core.SameExpr(f.Pkg, l, vs) && i < len(as.Rhs) {
				// must structurally dominate
				for _, anc := range path {
					var list []ast.Stmt
					switch b := anc.(type) {
					case *ast.BlockStmt:
						list = b.List
					case *ast.CaseClause:
						list = b.Body
					}
					for _, s := range list {
						if s == ast.Stmt(as) && (best == nil || as.Pos() > best.Pos()) {
							best, bi = as, i
						}
					}
				}
			}
		}
		return true
	})
	if best == nil {
		return ""
	}
	if t := f.Pkg.TypesInfo.TypeOf(best.Rhs[bi]); t != nil {
		return t.String()
	}
	return ""
}

func (t *unionTable) discriminantsViaCallers(p *core.Prog, f *core.Fn, base ast.Expr) (names []string, others bool, excluded map[string]bool, ok bool) {
	obj := core.ObjOf(f.Pkg, base)
	if obj == nil {
		return nil, false, nil, false
	}
	idx := -2
	if core.RecvObj(f) == obj {
		idx = -1
	}
	for i := 0; ; i++ {
		po := core.ParamObj(f, i)
		if po == nil {
			break
		}
		if po == obj {
			idx = i
		}
	}
	if idx == -2 {
		return nil, false, nil, false
	}
	excluded = map[string]bool{}
	seen := false
	for _, g := range p.AllFuncs() {
		if g.Decl.Body == nil {
			continue
		}
		for _, call := range core.CallsAll(g.Pkg, g.Decl.Body, func(o *types.Func) bool { return o == f.Obj }) {
			var arg ast.Expr
			if idx == -1 {
				if se, isSel := call.Fun.(*ast.SelectorExpr); isSel {
					arg = se.X
				}
			} else if idx < len(call.Args) {
				arg = call.Args[idx]
			}
			if arg == nil {
				return nil, false, nil, false
			}
			// &x → x
			if u, isU := core.Unparen(arg).(*ast.UnaryExpr); isU && u.Op == token.AND {
				arg = u.X
			}
			ns, oth, exc, k := t.discriminantsAt(g, call, arg)
			if !k {
				return nil, false, nil, false
			}
			seen = true
			names = append(names, ns...)
			if oth {
				if others {
					// intersection of exclusions
					for e := range excluded {
						if !exc[e] {
							delete(excluded, e)
						}
					}
				} else {
					others = true
					for e := range exc {
						excluded[e] = true
					}
				}
			}
		}
	}
	return names, others, excluded, seen
}

// producerNoSuccessBeforeTheSwitch: the producer of a tagged union (discriminant + interface value) stores the value in
// the arms of ONE switch over the discriminant; the consumer/producer table is derived from those arms.  A return that
// can be a success (its error result is not certainly non-nil) and that lies AFTER the discriminant was decoded but
// outside that switch — or inside a non-default arm ahead of the arm's store — hands out a known discriminant with a
// nil value, which every consumer's unchecked type assertion turns into a panic.
func producerNoSuccessBeforeTheSwitch(c *core.Ctx, rule string, us []union) {
	p := c.P
	n := 0
	for _, u := range us {
		f := p.Func(u.producer)
		discF, valF := p.Field(u.pkg, u.typ, u.disc), p.Field(u.pkg, u.typ, u.val)
		if f == nil || discF == nil || valF == nil || f.Decl.Body == nil {
			continue
		}
		var sw *ast.SwitchStmt
		ast.Inspect(f.Decl.Body, func(nd ast.Node) bool {
			if s, ok := nd.(*ast.SwitchStmt); ok && sw == nil && s.Tag != nil && core.FieldOf(f.Pkg, s.Tag) == discF {
				sw = s
			}
			return true
		})
		if sw == nil {
			continue
		}
		c.Analysed(f)
		certainErr := func(r *ast.ReturnStmt) bool {
			if len(r.Results) == 0 {
				return false
			}
			e := core.Unparen(r.Results[len(r.Results)-1])
			if core.IsNilIdent(f.Pkg, e) {
				return false
			}
			if call, ok := e.(*ast.CallExpr); ok {
				if cal := core.Callee(f.Pkg, call); cal != nil && cal.Pkg() != nil && (cal.Pkg().Path() == "fmt" || cal.Pkg().Path() == "errors") {
					return true
				}
				return false
			}
			for _, ft := range core.FactsAt(f, r) {
				if x, ok := core.IsNilCheck(f.Pkg, ft.Expr); ok && !ft.Truth && core.SameExpr(f.Pkg, x, e) {
					return true
				}
			}
			return false
		}
		// where the discriminant becomes known: the first statement mentioning the discriminant field
		discKnown := sw.Pos()
		ast.Inspect(f.Decl.Body, func(nd ast.Node) bool {
			if se, ok := nd.(*ast.SelectorExpr); ok && core.FieldOf(f.Pkg, se) == discF && se.Pos() < discKnown {
				discKnown = se.Pos()
			}
			return true
		})
		ast.Inspect(f.Decl.Body, func(nd ast.Node) bool {
			if _, isLit := nd.(*ast.FuncLit); isLit {
				return false
			}
			r, ok := nd.(*ast.ReturnStmt)
			if !ok || certainErr(r) {
				return true
			}
			n++
			construct := fmt.Sprintf("%s return #%d", f.Name(), retIndex(f, r))
			switch {
			case r.Pos() > sw.End():
				c.Hold(rule, construct, r.Pos(), "behind the switch over the discriminant")
			case r.Pos() < sw.Pos():
				c.Check(r.Pos() < discKnown, rule, construct, r.Pos(),
					"a return that may be a success lies between the decoding of the discriminant and the switch that stores the value for it: the caller gets a known "+u.disc+" with a nil "+u.val+", and the consumers' unchecked type assertions panic")
			default:
				// inside the switch: default arm, or behind a store of the value in its arm
				ok := false
				for _, cl := range sw.Body.List {
					cc := cl.(*ast.CaseClause)
					if r.Pos() < cc.Pos() || r.End() > cc.End() {
						continue
					}
					if cc.List == nil {
						ok = true
					}
					for _, st := range cc.Body {
						if st.End() <= r.Pos() {
							if as, isAs := st.(*ast.AssignStmt); isAs {
								for _, l := range as.Lhs {
									if core.FieldOf(f.Pkg, l) == valF {
										ok = true
									}
								}
							}
						}
					}
				}
				c.Check(ok, rule, construct, r.Pos(), "a return that may be a success sits in a non-default arm ahead of that arm's store of "+u.val)
			}
			return true
		})
	}
	c.Check(n >= 2, rule, "producer returns examined", 0, fmt.Sprintf("examined %d possibly-successful returns of union producers", n))
}
