package props

import (
	"fmt"
	"go/ast"
	"go/types"
	"sort"
	"strings"

	"verif/engine/core"
)

// routeCopyOwnsItsPathList: the Loc-RIB and the Adj-RIB-Out take `old := r.Copy()` before they change the route and diff
// old against new afterwards.  The copy's path list must have a backing array of its own: a list built on the receiver's
// array (`append(r.paths[:0], …)`, `r.paths[:n]`, `r.paths`) changes when the route changes, the diff of old and new is
// empty, and the withdrawal of the removed path is never sent.
func routeCopyOwnsItsPathList(c *core.Ctx, rule string) {
	f := c.MustFunc("route.(*Route).Copy")
	if f == nil {
		return
	}
	c.Analysed(f)
	paths := c.P.Field("route", "Route", "paths")
	recv := core.RecvObj(f)
	n := 0
	judge := func(rhs ast.Expr, at ast.Node) {
		n++
		why := ""
		switch x := core.Unparen(rhs).(type) {
		case *ast.CallExpr:
			if id, ok := x.Fun.(*ast.Ident); ok && id.Name == "make" {
				break
			}
			if id, ok := x.Fun.(*ast.Ident); ok && id.Name == "append" && len(x.Args) > 0 {
				if rootObj(f, sliceBase(x.Args[0])) == recv {
					why = "append onto a slice of the receiver's own path list writes into (and shares) the receiver's backing array"
				}
				break
			}
			why = "path list comes from a call this rule does not know to allocate"
		default:
			if rootObj(f, sliceBase(rhs)) == recv {
				why = "the copy's path list is the receiver's list (or a slice of it)"
			}
		}
		c.Check(why == "", rule, fmt.Sprintf("%s path list #%d of the copy has its own backing array", f.Name(), n), at.Pos(),
			why+": the `old` copy taken before a table change changes with the route, so the diff old/new is empty and the removed path is never withdrawn from the clients")
	}
	ast.Inspect(f.Decl.Body, func(nd ast.Node) bool {
		switch x := nd.(type) {
		case *ast.AssignStmt:
			for i, l := range x.Lhs {
				if se, ok := core.Unparen(l).(*ast.SelectorExpr); ok && core.FieldOf(f.Pkg, se) == paths && len(x.Rhs) == len(x.Lhs) {
					judge(x.Rhs[i], x)
				}
			}
		case *ast.KeyValueExpr:
			if id, ok := x.Key.(*ast.Ident); ok && f.Pkg.TypesInfo.Uses[id] == paths {
				judge(x.Value, x)
			}
		}
		return true
	})
	c.Check(n >= 1, rule, f.Name()+" fills the copy's path list", f.Decl.Pos(), "no store to the copy's paths field found")
}

func sliceBase(e ast.Expr) ast.Expr {
	for {
		if se, ok := core.Unparen(e).(*ast.SliceExpr); ok {
			e = se.X
			continue
		}
		return core.Unparen(e)
	}
}

// refreshIsUnconditional: replacing the export policy of an established session re-evaluates EVERY Loc-RIB route under the
// new chain.  What the Adj-RIB-Out holds says nothing about what the new chain lets through (a table emptied by a
// reject-all chain is exactly the one that has everything to announce), so the RefreshClient call must be on every path
// through ReplaceFilterChain.
func refreshIsUnconditional(c *core.Ctx, rule string) {
	f := c.MustFunc(outPkg + ".(*AdjRIBOut).ReplaceFilterChain")
	if f == nil {
		return
	}
	c.Analysed(f)
	g := c.P.CFG(f)
	isRefresh := func(n ast.Node) bool {
		return core.NodeHas(n, func(x ast.Node) bool {
			cl, ok := x.(*ast.CallExpr)
			return ok && core.FuncKey(core.Callee(f.Pkg, cl)) == "routingtable/locRIB.(*LocRIB).RefreshClient"
		})
	}
	rets, end := core.ExitsWithout(g, isRefresh)
	at := f.Decl.Pos()
	if len(rets) > 0 {
		at = rets[0].Pos()
	}
	c.Check(len(rets) == 0 && !end, rule, f.Name()+" refreshes from the Loc-RIB on every path", at,
		"a path through ReplaceFilterChain installs the new export chain without re-evaluating the Loc-RIB under it (e.g. skipped for an empty Adj-RIB-Out): routes the old chain rejected and the new chain accepts are never announced")
}

// reflectionFlagIsPerSession: whether ORIGINATOR_ID and CLUSTER_LIST go on the wire is a property of the session (we
// reflect to a client), never of the path: the Adj-RIB-Out has already put the attributes on every path it reflects, and
// a path-dependent flag (e.g. "only when ORIGINATOR_ID is set") drops the CLUSTER_LIST of exactly the paths whose
// originator could not be derived — the next reflector's loop detection never sees this cluster.
func reflectionFlagIsPerSession(c *core.Ctx, rule string) {
	n := 0
	for _, f := range c.P.FuncsIn(srv) {
		if f.Decl.Body == nil {
			continue
		}
		for _, call := range core.Calls(f.Pkg, f.Decl.Body, core.KeyIs("protocols/bgp/packet.PathAttributes")) {
			if len(call.Args) != 3 {
				continue
			}
			n++
			c.Analysed(f)
			for ai := 1; ai <= 2; ai++ {
				bad := pathDependent(c.P, f, call.Args[ai], 2)
				c.Check(bad == "", rule, fmt.Sprintf("%s PathAttributes argument %d depends on the session only", f.Name(), ai), call.Args[ai].Pos(),
					"the iBGP / route-reflector-client flag handed to the attribute serializer is computed from "+bad+": ORIGINATOR_ID and CLUSTER_LIST (or LOCAL_PREF) are left off the wire for some paths of a session that must carry them")
			}
		}
	}
	c.Check(n >= 1, rule, "calls of packet.PathAttributes in the BGP server", 0, "none found")
}

// pathDependent reports a sub-expression of path type in e (following same-package helper calls to the given depth).
func pathDependent(p *core.Prog, f *core.Fn, e ast.Expr, depth int) string {
	bad := ""
	ast.Inspect(e, func(n ast.Node) bool {
		x, ok := n.(ast.Expr)
		if !ok || bad != "" {
			return bad == ""
		}
		if tv, has := f.Pkg.TypesInfo.Types[x]; has && tv.Type != nil {
			t := tv.Type
			if pt, isPtr := t.(*types.Pointer); isPtr {
				t = pt.Elem()
			}
			if nm, isNamed := t.(*types.Named); isNamed && nm.Obj().Pkg() != nil && nm.Obj().Pkg().Name() == "route" {
				bad = "a " + nm.Obj().Name() + " value (" + types.ExprString(x) + ")"
				return false
			}
		}
		if cl, isCall := x.(*ast.CallExpr); isCall && depth > 0 {
			if g := p.FnOf(core.Callee(f.Pkg, cl)); g != nil && g.Decl.Body != nil && g.Pkg == f.Pkg {
				ast.Inspect(g.Decl.Body, func(m ast.Node) bool {
					if rs, isRet := m.(*ast.ReturnStmt); isRet {
						for _, r := range rs.Results {
							if b := pathDependent(p, g, r, depth-1); b != "" && bad == "" {
								bad = b + " in " + g.Name()
							}
						}
					}
					return true
				})
			}
		}
		return true
	})
	return bad
}

// removalTakesOneMatch: a path can be stored more than once with the same attributes (two add-path identifiers, two
// sources merged): every store is paired with ONE removal, and the bookkeeping next to the table (path identifier
// reference counts, source counters) gives back one unit per removal.  route.removePath must therefore take out the first
// match only: the branch taken on a match ends the scan.  A filter that drops every match removes paths whose own
// withdrawal is still to come and leaks the identifiers counted for them.
func removalTakesOneMatch(c *core.Ctx, rule string) {
	f := c.MustFunc("route.removePath")
	if f == nil {
		return
	}
	fns := []*core.Fn{f}
	for _, call := range core.Calls(f.Pkg, f.Decl.Body, func(o *types.Func) bool { return true }) {
		if g := c.P.FnOf(core.Callee(f.Pkg, call)); g != nil && g.Pkg == f.Pkg && g.Decl.Body != nil && g.Decl.Recv == nil {
			fns = append(fns, g)
		}
	}
	n := 0
	for _, g := range fns {
		var loops []ast.Stmt
		var visit func(nd ast.Node) bool
		visit = func(nd ast.Node) bool {
			switch x := nd.(type) {
			case *ast.RangeStmt:
				loops = append(loops, x)
				ast.Inspect(x.Body, visit)
				loops = loops[:len(loops)-1]
				return false
			case *ast.ForStmt:
				loops = append(loops, x)
				ast.Inspect(x.Body, visit)
				loops = loops[:len(loops)-1]
				return false
			case *ast.IfStmt:
				if len(loops) == 0 {
					return true
				}
				cond := core.Unparen(x.Cond)
				neg := false
				if ue, ok := cond.(*ast.UnaryExpr); ok && ue.Op.String() == "!" {
					cond, neg = core.Unparen(ue.X), true
				}
				cl, ok := cond.(*ast.CallExpr)
				if !ok {
					return true
				}
				k := core.FuncKey(core.Callee(g.Pkg, cl))
				if k != "route.(*Path).Compare" && k != "route.(*Path).Equal" {
					return true
				}
				n++
				c.Analysed(g)
				ends := false
				if !neg {
					for _, s := range loopExits(x.Body) {
						switch s.(type) {
						case *ast.ReturnStmt:
							ends = true
						case *ast.BranchStmt:
							if s.(*ast.BranchStmt).Tok.String() == "break" {
								ends = true
							}
						}
					}
				}
				c.Check(ends, rule, g.Name()+" the scan stops at the first matching path", x.Pos(),
					"the scan goes on after a match (or the match is the skipped branch of a filter): every stored path that compares equal is removed by one removal, although each was stored by its own announcement and the identifier / source bookkeeping gives back one unit per removal")
			}
			return true
		}
		ast.Inspect(g.Decl.Body, visit)
	}
	c.Check(n >= 1, rule, f.Name()+" match test found", f.Decl.Pos(), "no comparison of the stored paths with the path to remove found in removePath or its helpers")
}

// decisionEqualityIsNotIdentity: (*Path).Equal / (*BGPPath).Equal answer "do the two paths tie in the decision process"
// (path id, LOCAL_PREF, AS path LENGTH, ORIGIN, MED, …).  They ignore AS path contents, communities, cluster list and unknown
// attributes, so they must not stand in for identity ("is this path already stored / already queued / the one to
// replace").  Who-may-call table, frozen from the tree and confirmed by reading: every production call of the
// decision-equality functions and of the boolean helpers built on them is in a listed function.
func decisionEqualityIsNotIdentity(c *core.Ctx, rule string) {
	allowed := map[string]map[string]string{
		"route.(*Path).Equal": {
			"route.(*Route).ReplacePath":                    "finds the path to replace; the caller (LocRIB.ReplacePath) hands in the stored object's own attributes",
			"route.compareItemExists":                       "Route.Equal: two routes are equal when their path lists tie pairwise (used by tests and the API)",
			"routingtable/locRIB.(*LocRIB).ContainsPfxPath": "test helper of the Loc-RIB, no production caller",
		},
		"route.(*BGPPath).Equal":                        {"route.(*Path).Equal": "dispatch by path type"},
		"route.(*StaticPath).Equal":                     {"route.(*Path).Equal": "dispatch by path type", "route.(*StaticPath).Compare": "static paths have no attributes beyond the next hop"},
		"route.compareItemExists":                       {"route.comparePathSlice": "Route.Equal"},
		"routingtable/locRIB.(*LocRIB).ContainsPfxPath": {},
	}
	n := 0
	for _, f := range c.P.AllFuncs() {
		if f.Decl.Body == nil {
			continue
		}
		for _, call := range core.Calls(f.Pkg, f.Decl.Body, func(o *types.Func) bool { _, ok := allowed[core.FuncKey(o)]; return ok }) {
			k := core.FuncKey(core.Callee(f.Pkg, call))
			n++
			_, ok := allowed[k][core.FuncKey(f.Obj)]
			c.Check(ok, rule, fmt.Sprintf("%s may call %s", f.Name(), k), call.Pos(),
				"decision-process equality (ties in best-path selection: ignores AS path contents, communities, cluster list, unknown attributes) is used where this function needs identity: two different paths that tie are taken for the same path (one of them is not stored / not queued / not replaced)")
		}
	}
	c.Check(n >= 5, rule, "call sites of the decision-equality functions", 0, fmt.Sprintf("only %d found", n))
}

// nilChildKeepsTheAccumulator: the trie walkers thread a result list through the recursion (`res = child.walk(res)`).
// A walker whose nil-receiver case returns something other than the list it was handed (dumpPfxs returns nil) throws the
// collected routes away when it is called on a missing child: each such call must sit under `child != nil`.
func nilChildKeepsTheAccumulator(c *core.Ctx, rule string) {
	n := 0
	for _, f := range c.P.MethodsOf("routingtable", "node") {
		if f.Decl.Body == nil || len(f.Decl.Body.List) == 0 {
			continue
		}
		recv := core.RecvObj(f)
		sig := f.Obj.Type().(*types.Signature)
		if sig.Results().Len() != 1 || sig.Params().Len() < 1 {
			continue
		}
		if _, isSlice := sig.Results().At(0).Type().Underlying().(*types.Slice); !isSlice {
			continue
		}
		// accumulator parameter: the parameter of the result's type
		var acc types.Object
		for i := 0; i < sig.Params().Len(); i++ {
			if types.Identical(sig.Params().At(i).Type(), sig.Results().At(0).Type()) {
				acc = sig.Params().At(i)
			}
		}
		if acc == nil {
			continue
		}
		// does the nil case hand the accumulator back?
		drops := false
		if is, ok := f.Decl.Body.List[0].(*ast.IfStmt); ok {
			if x, isNil := core.IsNilCheck(f.Pkg, is.Cond); isNil && core.ObjOf(f.Pkg, x) == recv {
				for _, s := range is.Body.List {
					if rs, isRet := s.(*ast.ReturnStmt); isRet && len(rs.Results) == 1 && core.ObjOf(f.Pkg, rs.Results[0]) != acc {
						drops = true
					}
				}
			}
		}
		if !drops {
			continue
		}
		// every call of f, anywhere in the package, on a receiver that is not known non-nil
		for _, g := range c.P.FuncsIn("routingtable") {
			if g.Decl.Body == nil {
				continue
			}
			for _, call := range core.Calls(g.Pkg, g.Decl.Body, func(o *types.Func) bool { return o == f.Obj }) {
				se, ok := call.Fun.(*ast.SelectorExpr)
				if !ok {
					continue
				}
				if _, isField := core.Unparen(se.X).(*ast.SelectorExpr); !isField {
					continue // called on a root the caller owns (rt.root), not on a child link
				}
				n++
				c.Analysed(g)
				c.Check(core.KnownNonNil(g.Pkg, core.FactsAt(g, call), se.X), rule, fmt.Sprintf("%s calls %s on %s only when it is there", g.Name(), f.Obj.Name(), types.ExprString(se.X)), call.Pos(),
					f.Obj.Name()+" returns nil (not the list it was handed) for a nil node: called on a missing child it throws away every route collected so far, so GetLonger/dumps lose the routes of the sibling subtree")
			}
		}
	}
	c.Check(n >= 2, rule, "walker calls on child links", 0, fmt.Sprintf("only %d found", n))
}

// replaceIsOneStep: LocRIB.ReplacePath swaps one stored path for another in ONE step that can fail
// (Route.ReplacePath: "path not found"); when it fails the route is left alone and nothing is propagated.  Splitting it
// into a removal and an unconditional addition installs the new path although nothing was replaced: the Loc-RIB then
// holds a path no source contributed (the policy-reload caller relies on the guard for paths withdrawn meanwhile).
func replaceIsOneStep(c *core.Ctx, rule string) {
	f := c.MustFunc(locPkg + ".(*LocRIB).ReplacePath")
	if f == nil {
		return
	}
	c.Analysed(f)
	loose := core.Calls(f.Pkg, f.Decl.Body, core.KeyIs("routingtable.(*RoutingTable).AddPath", "routingtable.(*RoutingTable).RemovePath", "routingtable.(*RoutingTable).ReplacePath",
		"route.(*Route).AddPath", "route.(*Route).RemovePath"))
	at := f.Decl.Pos()
	if len(loose) > 0 {
		at = loose[0].Pos()
	}
	c.Check(len(loose) == 0, rule, f.Name()+" changes the route through Route.ReplacePath only", at,
		"the replacement is split into separate table operations: the addition no longer depends on the old path having been found")
	reps := core.Calls(f.Pkg, f.Decl.Body, core.KeyIs("route.(*Route).ReplacePath"))
	if !c.Check(len(reps) == 1, rule, f.Name()+" calls Route.ReplacePath once", f.Decl.Pos(), "expected exactly one Route.ReplacePath call") {
		return
	}
	// its error gates the propagation
	var errObj types.Object
	ast.Inspect(f.Decl.Body, func(n ast.Node) bool {
		if as, ok := n.(*ast.AssignStmt); ok && len(as.Rhs) == 1 && core.Unparen(as.Rhs[0]) == ast.Expr(reps[0]) && len(as.Lhs) == 1 {
			errObj = core.ObjOf(f.Pkg, as.Lhs[0])
		}
		return true
	})
	for _, call := range core.Calls(f.Pkg, f.Decl.Body, core.KeyIs(locPkg+".(*LocRIB).propagateChanges")) {
		ok := false
		for _, ft := range core.FactsAt(f, call) {
			if x, isNil := core.IsNilCheck(f.Pkg, ft.Expr); isNil && ft.Truth && errObj != nil && core.ObjOf(f.Pkg, x) == errObj {
				ok = true
			}
		}
		c.Check(ok, rule, f.Name()+" propagates only when the replacement succeeded", call.Pos(), "the change is propagated to the clients although Route.ReplacePath reported that the old path was not found")
	}
}

// identityRefinesTheDecision: removal finds "the same path" with Compare; the decision process orders paths with Select.
// Two paths that Select tells apart (one of them wins a step) must never be the same path for Compare — otherwise
// the withdrawal of the loser removes the first Compare-equal path of the sorted list, i.e. the winner that is still
// announced.  Necessary: every attribute field the decision (BGPPath.Select and what it calls) reads is also read by the
// identity test (BGPPath.Compare and what it calls).
func identityRefinesTheDecision(c *core.Ctx, rule string) {
	sel, cmp := c.MustFunc("route.(*BGPPath).Select"), c.MustFunc("route.(*BGPPath).Compare")
	if sel == nil || cmp == nil {
		return
	}
	c.Analysed(sel)
	c.Analysed(cmp)
	own := map[*types.Var]bool{}
	for _, tn := range []string{"BGPPath", "BGPPathA"} {
		for _, fv := range c.P.Fields("route", tn) {
			own[fv] = true
		}
	}
	selReads, cmpReads := c.P.ReadsTransitive(sel), c.P.ReadsTransitive(cmp)
	n := 0
	for fv := range own {
		if !selReads[fv] {
			continue
		}
		n++
		covered := cmpReads[fv]
		// ASPathLen is the cached length of ASPath (set wherever ASPath is set): comparing the AS path segment by segment covers it
		if src, derived := map[string]string{"ASPathLen": "ASPath"}[fv.Name()]; derived && !covered {
			for o := range own {
				if o.Name() == src && cmpReads[o] {
					covered = true
				}
			}
		}
		c.Check(covered, rule, "Compare reads "+fv.Name()+", which the decision reads", cmp.Decl.Pos(),
			"the decision process separates two paths by "+fv.Name()+" but the identity test (Compare) does not look at it: the two paths are one path for removal, so withdrawing the losing one removes the winning one from the Loc-RIB")
	}
	c.Check(n >= 6, rule, "attribute fields read by the decision", sel.Decl.Pos(), fmt.Sprintf("only %d found", n))
}

// asSetCountsOncePerSegment: RFC4271 9.1.2.2 a) counts an AS_SET as 1, per AS_SET segment.  In ASPath.Length the branch
// taken for an AS_SET segment adds the constant 1 to the very variable the function returns, once per iteration — a flag
// ("has a set") or a store of 1 makes two AS_SET segments count as one and such a path ties with a genuinely shorter one.
func asSetCountsOncePerSegment(c *core.Ctx, rule string) {
	f := c.MustFunc("protocols/bgp/types.(ASPath).Length")
	if f == nil {
		return
	}
	c.Analysed(f)
	asSet := c.P.Object("protocols/bgp/types", "ASSet")
	// the returned variable: named result, or the identifier returned
	var ret types.Object
	if f.Decl.Type.Results != nil && len(f.Decl.Type.Results.List) == 1 && len(f.Decl.Type.Results.List[0].Names) == 1 {
		ret = f.Pkg.TypesInfo.Defs[f.Decl.Type.Results.List[0].Names[0]]
	}
	plainReturn := true
	ast.Inspect(f.Decl.Body, func(n ast.Node) bool {
		if rs, ok := n.(*ast.ReturnStmt); ok && len(rs.Results) == 1 {
			if id, isId := core.Unparen(rs.Results[0]).(*ast.Ident); isId {
				ret = core.ObjOf(f.Pkg, id)
			} else {
				plainReturn = false
			}
		}
		return true
	})
	n := 0
	ast.Inspect(f.Decl.Body, func(nd ast.Node) bool {
		loop, ok := nd.(*ast.RangeStmt)
		if !ok {
			return true
		}
		ast.Inspect(loop.Body, func(m ast.Node) bool {
			var target ast.Expr
			inc := false
			switch x := m.(type) {
			case *ast.IncDecStmt:
				target, inc = x.X, x.Tok.String() == "++"
			case *ast.AssignStmt:
				if len(x.Lhs) != 1 || len(x.Rhs) != 1 {
					return true
				}
				target = x.Lhs[0]
				if v := core.ConstOf(f.Pkg, x.Rhs[0]); x.Tok.String() == "+=" && v != nil && v.ExactString() == "1" {
					inc = true
				}
			default:
				return true
			}
			// under `seg.Type == ASSet`
			under := false
			for _, ft := range core.FactsAt(f, m) {
				be, isBin := ft.Expr.(*ast.BinaryExpr)
				if !isBin || !ft.Truth || be.Op.String() != "==" {
					continue
				}
				if core.ObjOf(f.Pkg, be.Y) == asSet || core.ObjOf(f.Pkg, be.X) == asSet {
					under = true
				}
			}
			if !under {
				return true
			}
			n++
			c.Check(inc && plainReturn && ret != nil && core.ObjOf(f.Pkg, target) == ret, rule, f.Name()+" an AS_SET segment adds 1 to the returned length", m.Pos(),
				"the AS_SET branch does not add 1 per segment to the returned value (it sets a flag or stores a constant): a path with several AS_SETs is counted too short and wins or ties the AS_PATH length step against a shorter path")
			return true
		})
		return false
	})
	c.Check(n >= 1, rule, f.Name()+" AS_SET branch", f.Decl.Pos(), "no statement under `Type == ASSet` found in the loop")
}

// bodyLengthIsTheDeclaredLength: the body decoders fail by running off the end of the buffer when a message is shorter
// than its header says.  That only works when the length they are handed is the declared one (header length minus the
// header size): a length adjusted to what is left in the buffer makes a truncated message decode as a shorter valid one.
func bodyLengthIsTheDeclaredLength(c *core.Ctx, rule string) {
	f := c.MustFunc("protocols/bgp/packet.Decode")
	if f == nil {
		return
	}
	c.Analysed(f)
	lenField := c.P.Field("protocols/bgp/packet", "BGPHeader", "Length")
	minLen := c.P.Object("protocols/bgp/packet", "MinLen")
	declared := func(e ast.Expr) bool {
		be, ok := core.Unparen(e).(*ast.BinaryExpr)
		return ok && be.Op.String() == "-" && core.FieldOf(f.Pkg, be.X) == lenField && lenField != nil && core.ObjOf(f.Pkg, be.Y) == minLen && minLen != nil
	}
	n := 0
	for _, call := range core.Calls(f.Pkg, f.Decl.Body, core.KeyIs("protocols/bgp/packet.decodeMsgBody")) {
		if len(call.Args) < 3 {
			continue
		}
		n++
		ok := declared(call.Args[2])
		if id, isId := core.Unparen(call.Args[2]).(*ast.Ident); isId {
			defs := core.DefsOf(f, core.ObjOf(f.Pkg, id))
			ok = len(defs) > 0
			for _, d := range defs {
				if !declared(d) {
					ok = false
				}
			}
		}
		c.Check(ok, rule, f.Name()+" hands the body decoder the declared body length", call.Args[2].Pos(),
			"the body length given to the body decoder is not (on every path) header.Length - MinLen: a length clamped to the bytes available turns a truncated message into a shorter valid one instead of a decoding error")
	}
	c.Check(n == 1, rule, f.Name()+" calls decodeMsgBody", f.Decl.Pos(), fmt.Sprintf("%d calls found", n))
}

// ownCopyBeforeSessionRewrites: checkPropagateUpdate rewrites the path it is given for the session (prepend, next hop,
// ORIGINATOR_ID, CLUSTER_LIST, OTC).  The path the Loc-RIB hands to the Adj-RIB-Out is the Loc-RIB's own object, so on
// every way to checkPropagateUpdate the Adj-RIB-Out first takes its own copy (CheckRedistribute copies).  A copy taken
// only "when the session rewrites something" is as good as the predicate's list of rewrites — and the next rewrite
// added to checkPropagateUpdate is written into every table.
func ownCopyBeforeSessionRewrites(c *core.Ctx, rule string) {
	cpu := c.P.Func(outPkg + ".(*AdjRIBOut).checkPropagateUpdate")
	if cpu == nil {
		c.Check(false, rule, "checkPropagateUpdate", 0, "function not found")
		return
	}
	n := 0
	for _, f := range c.P.MethodsOf(outPkg, "AdjRIBOut") {
		if f.Decl.Body == nil || f == cpu {
			continue
		}
		has := func(keys ...string) func(ast.Node) bool {
			return func(nd ast.Node) bool {
				return core.NodeHas(nd, func(x ast.Node) bool {
					cl, ok := x.(*ast.CallExpr)
					if !ok {
						return false
					}
					k := core.FuncKey(core.Callee(f.Pkg, cl))
					for _, w := range keys {
						if k == w {
							return true
						}
					}
					return false
				})
			}
		}
		target := has(outPkg + ".(*AdjRIBOut).checkPropagateUpdate")
		if len(core.Calls(f.Pkg, f.Decl.Body, func(o *types.Func) bool { return o == cpu.Obj })) == 0 {
			continue
		}
		n++
		c.Analysed(f)
		bad := core.PathAvoiding(c.P.CFG(f), has("route.(*Path).CheckRedistribute", "route.(*Path).Copy"), target)
		at := f.Decl.Pos()
		if len(bad) > 0 {
			at = bad[0].Pos()
		}
		c.Check(len(bad) == 0, rule, f.Name()+" copies the Loc-RIB's path on every way to the session rewrites", at,
			"checkPropagateUpdate (which writes next hop, AS path, ORIGINATOR_ID, CLUSTER_LIST, OTC into the path) is reachable without the Adj-RIB-Out having taken its own copy: the rewrite lands in the Loc-RIB's object and shows up in every other table")
	}
	c.Check(n >= 2, rule, "callers of checkPropagateUpdate", 0, fmt.Sprintf("only %d found", n))
}

// announcedIdentifierIsTheComparedOne: the collision tie-break compares "our BGP Identifier" with the neighbour's.  Both
// ends reach the same verdict only if the identifier we compare is the one we announced in our OPEN: everything the
// OPEN's BGPIdentifier is computed from must be something the tie-break (shouldCeaseOnCollision) reads too.  A default
// applied on the OPEN side only ("server router ID when none is configured") makes the two ends close different
// connections — or both.
func announcedIdentifierIsTheComparedOne(c *core.Ctx, rule string) {
	om, sc := c.MustFunc(srv+".(*FSM).openMessage"), c.MustFunc(srv+".(*peer).shouldCeaseOnCollision")
	if om == nil || sc == nil {
		return
	}
	c.Analysed(om)
	c.Analysed(sc)
	idField := c.P.Field("protocols/bgp/packet", "BGPOpen", "BGPIdentifier")
	cmpReads := c.P.ReadsTransitive(sc)
	n := 0
	ast.Inspect(om.Decl.Body, func(nd ast.Node) bool {
		kv, ok := nd.(*ast.KeyValueExpr)
		if !ok {
			return true
		}
		id, ok := kv.Key.(*ast.Ident)
		if !ok || om.Pkg.TypesInfo.ObjectOf(id) != types.Object(idField) {
			return true
		}
		n++
		reads := map[*types.Var]bool{}
		ast.Inspect(kv.Value, func(m ast.Node) bool {
			switch x := m.(type) {
			case *ast.SelectorExpr:
				if fv := core.FieldOf(om.Pkg, x); fv != nil {
					reads[fv] = true
				}
			case *ast.CallExpr:
				if g := c.P.FnOf(core.Callee(om.Pkg, x)); g != nil {
					for fv := range c.P.ReadsTransitive(g) {
						reads[fv] = true
					}
				}
			}
			return true
		})
		var extra []string
		for fv := range reads {
			if !cmpReads[fv] {
				extra = append(extra, fv.Name())
			}
		}
		sort.Strings(extra)
		c.Check(len(extra) == 0, rule, om.Name()+" BGPIdentifier is computed from what the tie-break compares", kv.Pos(),
			"the identifier announced in the OPEN depends on "+strings.Join(extra, ", ")+", which shouldCeaseOnCollision never reads: the tie-break compares a different identifier than the one the neighbour saw, so the two ends can pick different connections to close")
		return true
	})
	c.Check(n == 1, rule, om.Name()+" sets BGPIdentifier", om.Decl.Pos(), fmt.Sprintf("%d stores found", n))
}

// knownPeersConnectionReachesAnFSM: a second connection from a configured neighbour is resolved by the collision
// procedure of an FSM (OPEN exchange, then a Cease NOTIFICATION on the losing connection).  The accept loop closes a
// connection itself only when there is no such neighbour; any other Close there drops a connection without the
// NOTIFICATION the neighbour's FSM waits for.
func knownPeersConnectionReachesAnFSM(c *core.Ctx, rule string) {
	f := c.MustFunc(srv + ".(*bgpServer).incomingConnectionWorker")
	if f == nil {
		return
	}
	c.Analysed(f)
	n := 0
	ast.Inspect(f.Decl.Body, func(nd ast.Node) bool {
		call, ok := nd.(*ast.CallExpr)
		if !ok {
			return true
		}
		se, ok := call.Fun.(*ast.SelectorExpr)
		if !ok || se.Sel.Name != "Close" {
			return true
		}
		n++
		unknown := false
		for _, ft := range core.CtlFactsAt(f, call) {
			if x, isNil := core.IsNilCheck(f.Pkg, ft.Expr); isNil && ft.Truth {
				if v, isVar := core.ObjOf(f.Pkg, x).(*types.Var); isVar && strings.HasSuffix(v.Type().String(), "server.peer") {
					unknown = true
				}
			}
		}
		c.Check(unknown, rule, fmt.Sprintf("%s Close #%d is for a connection from an unknown source", f.Name(), n), call.Pos(),
			"the accept loop closes a connection of a configured neighbour itself: that connection never gets an FSM, an OPEN or the Cease NOTIFICATION of the collision procedure")
		return true
	})
	c.Check(n >= 1, rule, f.Name()+" closes connections from unknown sources", f.Decl.Pos(), "no Close found")
}

// negotiatedHoldTimeReadAfterItIsStored: FSM.holdTime is the NEGOTIATED hold time of the session being set up; until the
// received OPEN has been processed the field still holds the previous session's value (0 on a fresh FSM).  In the OPEN
// handling of OpenSent every read of it comes after the store of min(configured, offered): a guard evaluated earlier
// decides with the previous session's value, so on a first session the hold timer is never refreshed (the session is
// torn down a second later) — or is kept running after a hold time of 0 was agreed.
func negotiatedHoldTimeReadAfterItIsStored(c *core.Ctx, rule string) {
	ht := c.P.Field(srv, "FSM", "holdTime")
	entry := c.MustFunc(srv + ".(*openSentState).openMsgReceived")
	if ht == nil || entry == nil {
		c.Check(false, rule, "anchors", 0, "FSM.holdTime or openSentState.openMsgReceived not found")
		return
	}
	isStoreNode := func(f *core.Fn) func(ast.Node) bool {
		return func(nd ast.Node) bool {
			as, ok := nd.(*ast.AssignStmt)
			if !ok {
				return false
			}
			for _, l := range as.Lhs {
				if core.FieldOf(f.Pkg, l) == ht {
					return true
				}
			}
			return false
		}
	}
	readsIn := func(f *core.Fn, nd ast.Node) bool {
		lhs := map[ast.Expr]bool{}
		ast.Inspect(nd, func(x ast.Node) bool {
			if as, ok := x.(*ast.AssignStmt); ok {
				for _, l := range as.Lhs {
					lhs[core.Unparen(l)] = true
				}
			}
			return true
		})
		return core.NodeHas(nd, func(x ast.Node) bool {
			e, ok := x.(ast.Expr)
			return ok && !lhs[e] && core.FieldOf(f.Pkg, e) == ht
		})
	}
	// the functions of the OPEN handling: the entry and its same-type callees; "stores" = stores directly or through a callee
	stores := map[*core.Fn]bool{}
	var fns []*core.Fn
	for _, g := range c.P.ReachableFns(entry) {
		if g.Decl.Body == nil || g.Decl.Recv == nil || !strings.Contains(g.Name(), "openSentState") {
			continue
		}
		fns = append(fns, g)
		if core.NodeHas(g.Decl.Body, isStoreNode(g)) {
			stores[g] = true
		}
	}
	n := 0
	for _, g := range fns {
		g := g
		gate := func(nd ast.Node) bool {
			if isStoreNode(g)(nd) {
				return true
			}
			return core.NodeHas(nd, func(x ast.Node) bool {
				cl, ok := x.(*ast.CallExpr)
				if !ok {
					return false
				}
				h := c.P.FnOf(core.Callee(g.Pkg, cl))
				return h != nil && stores[h]
			})
		}
		if !stores[g] && !core.NodeHas(g.Decl.Body, gate) {
			continue // neither stores nor leads to the store: reads here are after the negotiation only if its callers are; not on the OPEN path before the store
		}
		n++
		c.Analysed(g)
		bad := core.PathAvoiding(c.P.CFG(g), gate, func(nd ast.Node) bool { return readsIn(g, nd) })
		at := g.Decl.Pos()
		if len(bad) > 0 {
			at = bad[0].Pos()
		}
		c.Check(len(bad) == 0, rule, g.Name()+" reads the hold time only after the negotiated value is stored", at,
			"FSM.holdTime is read on the way to the store of the negotiated hold time: the value read is the previous session's (0 on a fresh FSM), so the guard it feeds decides for the wrong session")
	}
	c.Check(n >= 2, rule, "functions of the OPEN handling that store (or lead to the store of) the hold time", entry.Decl.Pos(), fmt.Sprintf("only %d found", n))
}

// checkRedistributeLeavesItsInputAlone: CheckRedistribute is called by every Adj-RIB-Out on the Loc-RIB's own path
// objects while only the Loc-RIB READ lock is held (RefreshRoute during a policy change, UpdateNewClient, AddPath of two
// sessions).  It must not store through its receiver: every field store in it goes through a variable that holds a fresh
// Copy() on every path reaching the store.
func checkRedistributeLeavesItsInputAlone(c *core.Ctx, rule string) {
	f := c.MustFunc("route.(*Path).CheckRedistribute")
	if f == nil {
		return
	}
	c.Analysed(f)
	recv := core.RecvObj(f)
	g := c.P.CFG(f)
	isCopy := func(e ast.Expr) bool {
		cl, ok := core.Unparen(e).(*ast.CallExpr)
		return ok && core.FuncKey(core.Callee(f.Pkg, cl)) == "route.(*Path).Copy"
	}
	n := 0
	ast.Inspect(f.Decl.Body, func(nd ast.Node) bool {
		as, ok := nd.(*ast.AssignStmt)
		if !ok {
			return true
		}
		for _, l := range as.Lhs {
			if _, isSel := core.Unparen(l).(*ast.SelectorExpr); !isSel {
				continue
			}
			root := rootObj(f, l)
			if root == nil {
				continue
			}
			n++
			ok := true
			if root == recv {
				// the receiver variable must have been re-bound to a copy on every path to this store
				rebinds := func(x ast.Node) bool {
					a, isAs := x.(*ast.AssignStmt)
					if !isAs || len(a.Lhs) != 1 || len(a.Rhs) != 1 {
						return false
					}
					return core.ObjOf(f.Pkg, a.Lhs[0]) == recv && isCopy(a.Rhs[0])
				}
				ok = len(core.PathAvoiding(g, rebinds, func(x ast.Node) bool { return x == ast.Node(as) })) == 0
			} else {
				defs := core.DefsOf(f, root)
				ok = len(defs) > 0
				for _, d := range defs {
					if !isCopy(d) {
						ok = false
					}
				}
			}
			c.Check(ok, rule, fmt.Sprintf("%s store #%d goes to the copy", f.Name(), n), as.Pos(),
				"a field is stored through the receiver (the Loc-RIB's own path object) instead of the copy: concurrent readers holding only the Loc-RIB read lock race with this write, and the change shows in every table")
		}
		return true
	})
	c.Check(n >= 2, rule, f.Name()+" field stores", f.Decl.Pos(), fmt.Sprintf("only %d found", n))
}

// listedFSMIsStarted: peer.stop() hands ManualStop to every FSM on peer.fsms and waits for each to finish.  An FSM on the
// list whose goroutine was never started never takes the event: DisposePeer blocks for ever.  newPeer puts the active FSM
// on the list under a condition; AddPeer starts it under a condition; the two must be the same condition (same
// configuration switches with the same polarity).
func listedFSMIsStarted(c *core.Ctx, rule string) {
	np, ap := c.MustFunc(srv+".newPeer"), c.MustFunc(srv+".(*bgpServer).AddPeer")
	if np == nil || ap == nil {
		return
	}
	c.Analysed(np)
	c.Analysed(ap)
	cond := func(f *core.Fn, at ast.Node) map[string]bool {
		m := map[string]bool{}
		for _, ft := range core.CtlFactsAt(f, at) {
			if ft.Expr == nil {
				continue
			}
			e := core.Unparen(ft.Expr)
			// configuration switches only (error exits above the site are not part of the condition)
			if fv := core.FieldOf(f.Pkg, e); fv != nil {
				m[strings.ToLower(fv.Name())] = ft.Truth
			}
		}
		return m
	}
	var listed, started ast.Node
	for _, call := range core.Calls(np.Pkg, np.Decl.Body, core.KeyIs(srv+".NewActiveFSM")) {
		listed = call
	}
	for _, call := range core.Calls(ap.Pkg, ap.Decl.Body, core.KeyIs(srv+".(*peer).Start")) {
		started = call
	}
	if !c.Check(listed != nil && started != nil, rule, "newPeer lists the active FSM, AddPeer starts it", np.Decl.Pos(), "NewActiveFSM in newPeer or peer.Start in AddPeer not found") {
		return
	}
	a, b := cond(np, listed), cond(ap, started)
	same := len(a) == len(b)
	for k, v := range a {
		if bv, ok := b[k]; !ok || bv != v {
			same = false
		}
	}
	c.Check(same, rule, "the active FSM is started under the condition it is listed under", started.Pos(),
		fmt.Sprintf("newPeer puts the active FSM on peer.fsms under %v, AddPeer starts it under %v: an FSM can be on the list without a goroutine, and peer.stop() (DisposePeer, restart on reconfiguration) then blocks for ever handing it ManualStop", a, b))
}

// boundTestSeesTheWideSum: a test "does it still fit into the one-octet (two-octet) length" must compare the sum computed
// in a type wide enough to hold it.  `int(a+b) <= 255` with a, b uint8 adds in uint8 first: the sum has already wrapped,
// the test is always true, the length field wraps on the wire and the PDU no longer decodes to what was encoded.
// Rule: no comparison of a widened (or unwidened) narrow unsigned arithmetic result against a constant that the narrow
// type can never exceed.
func boundTestSeesTheWideSum(c *core.Ctx, rule string, pkgs ...string) {
	nCmp := 0
	for _, rel := range pkgs {
		for _, f := range c.P.FuncsIn(rel) {
			if f.Decl.Body == nil || isTestFn(c.P, f) {
				continue
			}
			ast.Inspect(f.Decl.Body, func(nd ast.Node) bool {
				be, ok := nd.(*ast.BinaryExpr)
				if !ok {
					return true
				}
				op := be.Op.String()
				if op != "<=" && op != "<" && op != ">" && op != ">=" {
					return true
				}
				for side := 0; side < 2; side++ {
					x, k := be.X, be.Y
					if side == 1 {
						x, k = be.Y, be.X
					}
					kv := core.ConstOf(f.Pkg, k)
					if kv == nil {
						continue
					}
					// strip widening conversions
					e := core.Unparen(x)
					for {
						cl, isCall := e.(*ast.CallExpr)
						if !isCall || len(cl.Args) != 1 {
							break
						}
						if tv, has := f.Pkg.TypesInfo.Types[cl.Fun]; !has || !tv.IsType() {
							break
						}
						e = core.Unparen(cl.Args[0])
					}
					ar, isAr := e.(*ast.BinaryExpr)
					if !isAr || (ar.Op.String() != "+" && ar.Op.String() != "*") {
						continue
					}
					if core.ConstOf(f.Pkg, ar) != nil {
						continue
					}
					bt, _ := f.Pkg.TypesInfo.TypeOf(ar).Underlying().(*types.Basic)
					if bt == nil {
						continue
					}
					var max int64
					switch bt.Kind() {
					case types.Uint8:
						max = 255
					case types.Uint16:
						max = 65535
					default:
						continue
					}
					nCmp++
					kk, exact := constInt64Val(kv)
					c.Analysed(f)
					c.Check(!exact || kk < max, rule, fmt.Sprintf("%s bound test on %s", f.Name(), types.ExprString(ar)), be.Pos(),
						fmt.Sprintf("the sum is computed in %s and compared with %d, which a %s can never exceed: the test cannot fail, the length wraps instead of the TLV being closed", bt.Name(), kk, bt.Name()))
				}
				return true
			})
		}
	}
	c.Hold(rule, "comparisons of narrow unsigned sums with constants examined", 0, fmt.Sprintf("%d found", nCmp))
}

func constInt64Val(v interface{ ExactString() string }) (int64, bool) {
	var i int64
	_, err := fmt.Sscan(v.ExactString(), &i)
	return i, err == nil
}

// allFlagsClearedAfterAllInterfaces: an LSP can owe an acknowledgement on several circuits at once.  clearAllSSNFlags
// drops the flags of an entry for EVERY interface, so in sendPSNPss it may only run once every interface has been served;
// inside the per-interface loop it wipes what the interfaces served later still owe (they never send their PSNP and the
// neighbour retransmits for ever).
func allFlagsClearedAfterAllInterfaces(c *core.Ctx, rule string) {
	const isisSrv = "protocols/isis/server"
	f := c.MustFunc(isisSrv + ".(*lsdb).sendPSNPss")
	clr := c.P.Func(isisSrv + ".(*lsdbEntry).clearAllSSNFlags")
	if f == nil || clr == nil {
		c.Check(clr != nil, rule, "lsdbEntry.clearAllSSNFlags", 0, "function not found")
		return
	}
	c.Analysed(f)
	reaches := func(g *core.Fn) bool {
		for _, h := range c.P.ReachableFns(g) {
			if h == clr {
				return true
			}
		}
		return false
	}
	n := 0
	var loops int
	var visit func(nd ast.Node) bool
	visit = func(nd ast.Node) bool {
		switch x := nd.(type) {
		case *ast.RangeStmt:
			loops++
			ast.Inspect(x.Body, visit)
			loops--
			return false
		case *ast.ForStmt:
			loops++
			ast.Inspect(x.Body, visit)
			loops--
			return false
		case *ast.CallExpr:
			g := c.P.FnOf(core.Callee(f.Pkg, x))
			if g == nil || !reaches(g) {
				return true
			}
			n++
			c.Check(loops == 0, rule, fmt.Sprintf("%s clears all SSN flags (via %s) after the interface loop", f.Name(), g.Obj.Name()), x.Pos(),
				"the all-interfaces clear runs inside the per-interface loop: the acknowledgements owed on the interfaces served later are dropped before their PSNPs are built")
		}
		return true
	}
	ast.Inspect(f.Decl.Body, visit)
	c.Check(n >= 1, rule, f.Name()+" clears the SSN flags it served", f.Decl.Pos(), "no call reaching clearAllSSNFlags found")
}

// removedSessionsAreDeconfiguredOnEverySuccess: a reload ends like a fresh start only if the sessions the new
// configuration no longer names are removed.  Every successful return of bgpConfigurator.configure passes through
// deconfigureRemovedSessions; an early "nothing to configure" return (no groups) leaves all old sessions running.
func removedSessionsAreDeconfiguredOnEverySuccess(c *core.Ctx, rule string) {
	f := c.MustFunc("cmd/bio-rd.(*bgpConfigurator).configure")
	if f == nil {
		return
	}
	c.Analysed(f)
	gate := func(nd ast.Node) bool {
		return core.NodeHas(nd, func(x ast.Node) bool {
			cl, ok := x.(*ast.CallExpr)
			return ok && core.FuncKey(core.Callee(f.Pkg, cl)) == "cmd/bio-rd.(*bgpConfigurator).deconfigureRemovedSessions"
		})
	}
	rets, end := core.ExitsWithout(c.P.CFG(f), gate)
	var bad []*ast.ReturnStmt
	for _, r := range rets {
		if len(r.Results) == 1 && core.IsNilIdent(f.Pkg, r.Results[0]) {
			bad = append(bad, r)
		}
	}
	at := f.Decl.Pos()
	if len(bad) > 0 {
		at = bad[0].Pos()
	}
	c.Check(len(bad) == 0 && !end, rule, f.Name()+" every successful return comes after deconfigureRemovedSessions", at,
		"configure can return success without removing the sessions that are no longer configured: after such a reload the server runs sessions a fresh start with the same configuration would not have")
}

// eachFamilyHasItsOwnSettings: PeerConfig.IPv4 and PeerConfig.IPv6 are pointers; the per-family options (add-path,
// extended next hop, policies) are written through them afterwards.  Each store to one of the two fields in the
// configurator takes a freshly allocated object (a constructor call or a literal): one object handed to both makes the
// options of the family configured last apply to both.
func eachFamilyHasItsOwnSettings(c *core.Ctx, rule string) {
	v4, v6 := c.P.Field(srv, "PeerConfig", "IPv4"), c.P.Field(srv, "PeerConfig", "IPv6")
	n := 0
	for _, f := range c.P.FuncsIn("cmd/bio-rd") {
		if f.Decl.Body == nil || isTestFn(c.P, f) {
			continue
		}
		judge := func(rhs ast.Expr, at ast.Node, which string) {
			n++
			c.Analysed(f)
			ok := false
			switch x := core.Unparen(rhs).(type) {
			case *ast.CallExpr:
				ok = c.P.OwningCall(f, x)
			case *ast.UnaryExpr:
				_, ok = core.Unparen(x.X).(*ast.CompositeLit)
			case *ast.Ident:
				ok = x.Name == "nil"
				// a local that holds a fresh object and is stored into a family field once
				if o := core.ObjOf(f.Pkg, x); !ok && o != nil {
					defs := core.DefsOf(f, o)
					fresh := len(defs) > 0
					for _, d := range defs {
						switch y := core.Unparen(d).(type) {
						case *ast.CallExpr:
							if !c.P.OwningCall(f, y) {
								fresh = false
							}
						case *ast.UnaryExpr:
							if _, isLit := core.Unparen(y.X).(*ast.CompositeLit); !isLit {
								fresh = false
							}
						default:
							fresh = false
						}
					}
					uses := 0
					ast.Inspect(f.Decl.Body, func(m ast.Node) bool {
						if as, isAs := m.(*ast.AssignStmt); isAs && len(as.Lhs) == len(as.Rhs) {
							for i, l := range as.Lhs {
								if fv := core.FieldOf(f.Pkg, l); fv != nil && (fv == v4 || fv == v6) && core.ObjOf(f.Pkg, as.Rhs[i]) == o {
									uses++
								}
							}
						}
						return true
					})
					ok = fresh && uses == 1
				}
			}
			c.Check(ok, rule, fmt.Sprintf("%s store to PeerConfig.%s takes a fresh object", f.Name(), which), at.Pos(),
				"the address family settings stored here are not allocated for this store (a shared object or a parameter): IPv4 and IPv6 can point at one object, so add-path / next-hop options set for one family silently apply to the other")
		}
		ast.Inspect(f.Decl.Body, func(nd ast.Node) bool {
			switch x := nd.(type) {
			case *ast.AssignStmt:
				if len(x.Lhs) != len(x.Rhs) {
					return true
				}
				for i, l := range x.Lhs {
					if fv := core.FieldOf(f.Pkg, l); fv != nil && (fv == v4 || fv == v6) {
						judge(x.Rhs[i], x, fv.Name())
					}
				}
			case *ast.KeyValueExpr:
				if id, ok := x.Key.(*ast.Ident); ok {
					if o := f.Pkg.TypesInfo.ObjectOf(id); o != nil && (o == types.Object(v4) || o == types.Object(v6)) {
						judge(x.Value, x, id.Name)
					}
				}
			}
			return true
		})
	}
	c.Check(n >= 2, rule, "stores to PeerConfig.IPv4 / IPv6 in the configurator", 0, fmt.Sprintf("only %d found", n))
}

// decodedListsDoNotAliasSessionScratch: the lists processAttributes puts on a path are kept by the Adj-RIB-In for as long
// as the path lives.  A list built on storage that belongs to the session object (a scratch slice kept in
// fsmAddressFamily between calls) is overwritten by the next UPDATE: stored paths then show the attributes of a later
// message.  Rule: no slice stored into the path in processAttributes has its backing array rooted at the receiver or in a package-level variable.
func decodedListsDoNotAliasSessionScratch(c *core.Ctx, rule string) {
	f := c.MustFunc(srv + ".(*fsmAddressFamily).processAttributes")
	if f == nil {
		return
	}
	c.Analysed(f)
	recv := core.RecvObj(f)
	path := core.ParamObj(f, 1)
	var rooted func(e ast.Expr, depth int) bool
	rooted = func(e ast.Expr, depth int) bool {
		if depth > 4 {
			return false
		}
		e = sliceBase(e)
		if cl, ok := e.(*ast.CallExpr); ok {
			if id, isId := cl.Fun.(*ast.Ident); isId && id.Name == "append" && len(cl.Args) > 0 {
				return rooted(cl.Args[0], depth+1)
			}
			return false
		}
		root := rootObj(f, e)
		if root == nil {
			return false
		}
		if root == recv {
			return true
		}
		// package-level storage outlives the call just the same
		if v, isVar := root.(*types.Var); isVar && v.Pkg() != nil && v.Parent() == v.Pkg().Scope() {
			return true
		}
		if id, ok := e.(*ast.Ident); ok && root != path {
			for _, d := range core.DefsOf(f, core.ObjOf(f.Pkg, id)) {
				if rooted(d, depth+1) {
					return true
				}
			}
		}
		return false
	}
	n := 0
	ast.Inspect(f.Decl.Body, func(nd ast.Node) bool {
		as, ok := nd.(*ast.AssignStmt)
		if !ok || len(as.Lhs) != len(as.Rhs) {
			return true
		}
		for i, l := range as.Lhs {
			if _, isSel := core.Unparen(l).(*ast.SelectorExpr); !isSel || rootObj(f, l) != path {
				continue
			}
			if _, isSlice := f.Pkg.TypesInfo.TypeOf(l).Underlying().(*types.Slice); !isSlice {
				continue
			}
			n++
			c.Check(!rooted(as.Rhs[i], 0), rule, fmt.Sprintf("%s list store #%d into the path owns its storage", f.Name(), n), as.Pos(),
				"the list stored into the path is a slice of storage held by the session object: the next UPDATE overwrites it, so paths already in the Adj-RIB-In change their attributes")
		}
		return true
	})
	c.Check(n >= 1, rule, f.Name()+" stores lists into the path", f.Decl.Pos(), "no slice-typed store into the path found")
}

// bmpPeerASNFromThePerPeerHeader: the AS of a monitored peer is the 4-octet Peer AS of the BMP per-peer header.  The
// 2-octet "My Autonomous System" field of the received OPEN is AS_TRANS (23456) for every peer in a 4-octet AS: taken
// from there, an iBGP session inside such an AS is treated as eBGP (paths marked EBGP, locally originated routes hidden).
func bmpPeerASNFromThePerPeerHeader(c *core.Ctx, rule string) {
	f := c.MustFunc(srv + ".(*Router).processPeerUpNotification")
	if f == nil {
		return
	}
	c.Analysed(f)
	peerASN := c.P.Field(srv, "peer", "peerASN")
	hdrAS := c.P.Field("protocols/bmp/packet", "PerPeerHeader", "PeerAS")
	n := 0
	judge := func(v ast.Expr, at ast.Node) {
		n++
		c.Check(hdrAS != nil && core.MentionsField(f.Pkg, v, hdrAS), rule, fmt.Sprintf("%s peerASN store #%d takes the per-peer header's Peer AS", f.Name(), n), at.Pos(),
			"the monitored peer's AS is not taken from the BMP per-peer header (4 octets): the OPEN's 2-octet field is AS_TRANS for 4-octet AS numbers")
	}
	ast.Inspect(f.Decl.Body, func(nd ast.Node) bool {
		switch x := nd.(type) {
		case *ast.KeyValueExpr:
			if id, ok := x.Key.(*ast.Ident); ok && f.Pkg.TypesInfo.ObjectOf(id) == types.Object(peerASN) {
				judge(x.Value, x)
			}
		case *ast.AssignStmt:
			for i, l := range x.Lhs {
				if core.FieldOf(f.Pkg, l) == peerASN && len(x.Lhs) == len(x.Rhs) {
					judge(x.Rhs[i], x)
				}
			}
		}
		return true
	})
	c.Check(n >= 1, rule, f.Name()+" sets the peer's AS", f.Decl.Pos(), "no store to peer.peerASN found")
}

// neighborEntryCreatedOnlyWhenAbsent: every neighbor object has an adjacency checker goroutine that, when it ends,
// removes the map entry BY MAC ADDRESS.  Replacing the entry of a MAC that is still in the map (neighbor is back after a
// flap, neighbor restarted) leaves the old object's checker running; when it ends it deletes the NEW entry and the healthy
// adjacency disappears although hellos keep arriving.  Rule: a store into neighborManager.neighbors is control-dependent
// on the comma-ok lookup of that map having found nothing.
func neighborEntryCreatedOnlyWhenAbsent(c *core.Ctx, rule string) {
	const isisSrv = "protocols/isis/server"
	nbrs := c.P.Field(isisSrv, "neighborManager", "neighbors")
	if nbrs == nil {
		c.Check(false, rule, "neighborManager.neighbors", 0, "field not found")
		return
	}
	n := 0
	for _, f := range c.P.MethodsOf(isisSrv, "neighborManager") {
		if f.Decl.Body == nil {
			continue
		}
		ast.Inspect(f.Decl.Body, func(nd ast.Node) bool {
			as, ok := nd.(*ast.AssignStmt)
			if !ok {
				return true
			}
			for _, l := range as.Lhs {
				ix, isIx := core.Unparen(l).(*ast.IndexExpr)
				if !isIx || core.FieldOf(f.Pkg, ix.X) != nbrs {
					continue
				}
				n++
				c.Analysed(f)
				absent := false
				for _, ft := range core.CtlFactsAt(f, as) {
					if ft.Expr == nil || ft.Truth {
						continue
					}
					id, isId := core.Unparen(ft.Expr).(*ast.Ident)
					if !isId {
						continue
					}
					// `_, found := nm.neighbors[k]`, and nothing else ever assigns `found`
					writes := 0
					ast.Inspect(f.Decl.Body, func(m ast.Node) bool {
						if d, isAs := m.(*ast.AssignStmt); isAs {
							for _, dl := range d.Lhs {
								if core.ObjOf(f.Pkg, dl) == core.ObjOf(f.Pkg, id) {
									writes++
								}
							}
						}
						return true
					})
					if writes != 1 {
						continue
					}
					ast.Inspect(f.Decl.Body, func(m ast.Node) bool {
						d, isAs := m.(*ast.AssignStmt)
						if !isAs || len(d.Lhs) != 2 || len(d.Rhs) != 1 || core.ObjOf(f.Pkg, d.Lhs[1]) != core.ObjOf(f.Pkg, id) {
							return true
						}
						if dx, isDx := core.Unparen(d.Rhs[0]).(*ast.IndexExpr); isDx && core.FieldOf(f.Pkg, dx.X) == nbrs && types.ExprString(dx.Index) == types.ExprString(ix.Index) {
							absent = true
						}
						return true
					})
				}
				c.Check(absent, rule, fmt.Sprintf("%s stores a neighbor only when the map has none for that address", f.Name()), as.Pos(),
					"a neighbor entry can be stored over an existing one: the replaced object's adjacency checker keeps running and later deletes the map entry by MAC address — the new, healthy adjacency is dropped while its hellos keep arriving")
			}
			return true
		})
	}
	c.Check(n >= 1, rule, "stores into neighborManager.neighbors", 0, "none found")
}

// constructorCallsSeeInitialisedFields: newPeer builds the peer in steps (`p := &peer{…}`, then `p.ipv4 = …`,
// `p.ipv6 = …`, …).  A helper that is handed p and reads one of those late-assigned fields must be called after the
// assignment, on every path: called earlier it sees nil and, e.g., leaves the IPv6 add-path capability out of our OPEN
// while the negotiation later enables add-path from the same (by then assigned) field — the two ends disagree on the
// NLRI encoding.
func constructorCallsSeeInitialisedFields(c *core.Ctx, rule string) {
	f := c.MustFunc(srv + ".newPeer")
	if f == nil {
		return
	}
	c.Analysed(f)
	g := c.P.CFG(f)
	// the object under construction: the variable the function returns first
	var obj types.Object
	ast.Inspect(f.Decl.Body, func(nd ast.Node) bool {
		if rs, ok := nd.(*ast.ReturnStmt); ok && len(rs.Results) == 2 && obj == nil {
			if id, isId := core.Unparen(rs.Results[0]).(*ast.Ident); isId && id.Name != "nil" {
				obj = core.ObjOf(f.Pkg, id)
			}
		}
		return true
	})
	if obj == nil {
		c.Check(false, rule, f.Name()+" returns the peer it builds", f.Decl.Pos(), "constructed object not identified")
		return
	}
	// fields assigned after the literal
	late := map[*types.Var][]*ast.AssignStmt{}
	ast.Inspect(f.Decl.Body, func(nd ast.Node) bool {
		as, ok := nd.(*ast.AssignStmt)
		if !ok {
			return true
		}
		for _, l := range as.Lhs {
			if se, isSel := core.Unparen(l).(*ast.SelectorExpr); isSel && core.ObjOf(f.Pkg, se.X) == obj {
				if fv := core.FieldOf(f.Pkg, se); fv != nil {
					late[fv] = append(late[fv], as)
				}
			}
		}
		return true
	})
	n := 0
	for _, call := range core.Calls(f.Pkg, f.Decl.Body, func(*types.Func) bool { return true }) {
		callee := c.P.FnOf(core.Callee(f.Pkg, call))
		if callee == nil || callee.Decl.Body == nil {
			continue
		}
		gets := false
		if se, ok := call.Fun.(*ast.SelectorExpr); ok && core.ObjOf(f.Pkg, se.X) == obj {
			gets = true
		}
		for _, a := range call.Args {
			if core.ObjOf(f.Pkg, a) == obj {
				gets = true
			}
		}
		if !gets {
			continue
		}
		reads := c.P.ReadsTransitive(callee)
		for fv, stores := range late {
			if !reads[fv] {
				continue
			}
			n++
			isStore := func(nd ast.Node) bool {
				for _, s := range stores {
					if nd == ast.Node(s) {
						return true
					}
				}
				return false
			}
			// a store that can still happen after the call: the call ran on the unassigned field
			isCall := func(nd ast.Node) bool { return core.NodeHas(nd, func(x ast.Node) bool { return x == ast.Node(call) }) }
			bad := core.PathAvoidingFrom(g, isCall, func(ast.Node) bool { return false }, isStore)
			c.Check(len(bad) == 0, rule, fmt.Sprintf("%s calls %s after %s.%s is assigned", f.Name(), callee.Obj.Name(), obj.Name(), fv.Name()), call.Pos(),
				fmt.Sprintf("%s reads %s.%s, which newPeer assigns only later: the helper sees the zero value (nil) and what it derives from it (e.g. the add-path capability of our OPEN) disagrees with what the session later uses", callee.Obj.Name(), obj.Name(), fv.Name()))
		}
	}
	c.Hold(rule, f.Name()+" helper calls that read late-assigned fields", f.Decl.Pos(), fmt.Sprintf("%d (call, field) pairs examined", n))
}

// receivedIdentifierNotInterpretedOnExport: a path handed to the Adj-RIB-Out by the Loc-RIB carries the path identifier it
// was RECEIVED with (add-path RX); the identifiers of the paths the Adj-RIB-Out stores are the ones it SENT (allocated by
// its pathIDManager).  The two number spaces are unrelated, so package adjRIBOut never reads BGPPath.PathIdentifier: its
// only use of the field is the store of the identifier it allocated.  (Matching a removal "by identifier" compares a
// received with a sent identifier: the wrong path, or none, is withdrawn.)
func receivedIdentifierNotInterpretedOnExport(c *core.Ctx, rule string) {
	pid := c.P.Field("route", "BGPPath", "PathIdentifier")
	if pid == nil {
		c.Check(false, rule, "BGPPath.PathIdentifier", 0, "field not found")
		return
	}
	stores, reads := 0, 0
	for _, f := range c.P.FuncsIn(outPkg) {
		if f.Decl.Body == nil || isTestFn(c.P, f) {
			continue
		}
		lhs := map[ast.Expr]bool{}
		ast.Inspect(f.Decl.Body, func(nd ast.Node) bool {
			if as, ok := nd.(*ast.AssignStmt); ok && as.Tok.String() == "=" {
				for _, l := range as.Lhs {
					lhs[core.Unparen(l)] = true
				}
			}
			return true
		})
		ast.Inspect(f.Decl.Body, func(nd ast.Node) bool {
			se, ok := nd.(*ast.SelectorExpr)
			if !ok || core.FieldOf(f.Pkg, se) != pid {
				return true
			}
			if lhs[se] {
				stores++
				return true
			}
			reads++
			c.Analysed(f)
			c.Fail(rule, fmt.Sprintf("%s reads a path identifier (#%d)", f.Name(), reads), se.Pos(),
				"the Adj-RIB-Out interprets BGPPath.PathIdentifier of a path: for paths coming from the Loc-RIB that is the identifier RECEIVED from another peer, which has nothing to do with the identifiers this table sent")
			return true
		})
	}
	c.Check(stores >= 1, rule, "adjRIBOut stores the identifier it allocated", 0, "the store of the allocated path identifier was not found")
}

// oneReceiverPerConnection: `go fsm.msgReceiver()` reads BGP messages off the session's connection: header, then body.
// Two receivers on one connection split a message between them (one takes the header, the other the body as its
// header) and the message is never delivered.  The state whose run() starts the receiver is entered once per connection;
// its run() must therefore never hand back a state of its own type (a self-transition makes FSM.run call run() again, and
// with it start another receiver).
func oneReceiverPerConnection(c *core.Ctx, rule string) {
	recvFn := c.P.Func(srv + ".(*FSM).msgReceiver")
	if recvFn == nil {
		c.Check(false, rule, "FSM.msgReceiver", 0, "function not found")
		return
	}
	n := 0
	for _, f := range c.P.FuncsIn(srv) {
		if f.Decl.Body == nil || f.Decl.Recv == nil || f.Decl.Name.Name != "run" {
			continue
		}
		starts := false
		ast.Inspect(f.Decl.Body, func(nd ast.Node) bool {
			if gs, ok := nd.(*ast.GoStmt); ok && core.Callee(f.Pkg, gs.Call) == recvFn.Obj {
				starts = true
			}
			return true
		})
		if !starts {
			continue
		}
		n++
		c.Analysed(f)
		own := core.RecvObj(f).Type()
		if pt, isPtr := own.(*types.Pointer); isPtr {
			own = pt.Elem()
		}
		isOwn := func(t types.Type) bool {
			if pt, isPtr := t.(*types.Pointer); isPtr {
				t = pt.Elem()
			}
			return types.Identical(t, own)
		}
		seen := map[*core.Fn]bool{}
		var mayBeOwn func(g *core.Fn, e ast.Expr, depth int) bool
		mayBeOwn = func(g *core.Fn, e ast.Expr, depth int) bool {
			if depth > 8 {
				return true
			}
			e = core.Unparen(e)
			if t := g.Pkg.TypesInfo.TypeOf(e); t != nil {
				if tup, isTup := t.(*types.Tuple); isTup && tup.Len() > 0 {
					t = tup.At(0).Type()
				}
				if isOwn(t) {
					return true
				}
			}
			switch x := e.(type) {
			case *ast.CallExpr:
				h := c.P.FnOf(core.Callee(g.Pkg, x))
				if h == nil || h.Decl.Body == nil || seen[h] {
					return false
				}
				seen[h] = true
				res := false
				ast.Inspect(h.Decl.Body, func(m ast.Node) bool {
					if rs, ok := m.(*ast.ReturnStmt); ok && len(rs.Results) >= 1 && mayBeOwn(h, rs.Results[0], depth+1) {
						res = true
					}
					return true
				})
				return res
			case *ast.Ident:
				for _, d := range core.DefsOf(g, core.ObjOf(g.Pkg, x)) {
					if mayBeOwn(g, d, depth+1) {
						return true
					}
				}
			}
			return false
		}
		ast.Inspect(f.Decl.Body, func(nd ast.Node) bool {
			if _, isLit := nd.(*ast.FuncLit); isLit {
				return false
			}
			rs, ok := nd.(*ast.ReturnStmt)
			if !ok || len(rs.Results) < 1 {
				return true
			}
			seen = map[*core.Fn]bool{}
			if !mayBeOwn(f, rs.Results[0], 0) {
				return true
			}
			// excluded by `_, same := v.(*ownState)` with same == false on the way to the return
			excluded := false
			if id, isId := core.Unparen(rs.Results[0]).(*ast.Ident); isId {
				for _, ft := range append(core.CtlFactsAt(f, rs), core.FactsAt(f, rs)...) {
					if ft.Expr == nil {
						continue
					}
					fid, isFid := core.Unparen(ft.Expr).(*ast.Ident)
					if !isFid || ft.Truth {
						continue
					}
					for _, d := range core.DefsOf(f, core.ObjOf(f.Pkg, fid)) {
						if ta, isTA := core.Unparen(d).(*ast.TypeAssertExpr); isTA && core.ObjOf(f.Pkg, ta.X) == core.ObjOf(f.Pkg, id) && ta.Type != nil && isOwn(f.Pkg.TypesInfo.TypeOf(ta.Type)) {
							excluded = true
						}
					}
				}
			}
			c.Check(excluded, rule, f.Name()+" does not return to its own state", rs.Pos(),
				"run() starts a message receiver and can return a state of its own type: FSM.run then calls run() again and a second receiver reads the same connection — the next message is split between the receivers and never delivered")
			return true
		})
	}
	c.Check(n >= 1, rule, "state run() methods that start the message receiver", 0, "none found")
}

// loopConditionIsConstantTime: the BMP decoders run loops whose trip count the sender chooses (one iteration per TLV of a
// message of up to 2^32 octets).  A loop condition that calls a function which itself loops (re-summing everything
// decoded so far) makes decoding quadratic: one large message of empty TLVs holds the session goroutine for minutes to
// hours.  Rule: no `for` condition in the BMP packet decoders and the router's message processing calls a repository
// function that contains a loop (followed through calls, visited set).
func loopConditionIsConstantTime(c *core.Ctx, rule string) {
	loops := map[*core.Fn]int{} // 0 unknown, 1 no, 2 yes
	var hasLoop func(g *core.Fn, depth int) bool
	hasLoop = func(g *core.Fn, depth int) bool {
		if g == nil || g.Decl.Body == nil {
			return false
		}
		if v := loops[g]; v != 0 {
			return v == 2
		}
		loops[g] = 1
		res := false
		ast.Inspect(g.Decl.Body, func(nd ast.Node) bool {
			switch x := nd.(type) {
			case *ast.ForStmt, *ast.RangeStmt:
				res = true
			case *ast.CallExpr:
				if depth < 4 && hasLoop(c.P.FnOf(core.Callee(g.Pkg, x)), depth+1) {
					res = true
				}
			}
			return !res
		})
		if res {
			loops[g] = 2
		}
		return res
	}
	n := 0
	perFn := map[*core.Fn]int{}
	var fns []*core.Fn
	fns = append(fns, c.P.FuncsIn("protocols/bmp/packet")...)
	for _, f := range c.P.FuncsIn(srv) {
		if strings.Contains(c.P.Pos(f.Decl.Pos()), "bmp_") {
			fns = append(fns, f)
		}
	}
	for _, f := range fns {
		if f.Decl.Body == nil || isTestFn(c.P, f) {
			continue
		}
		ast.Inspect(f.Decl.Body, func(nd ast.Node) bool {
			fs, ok := nd.(*ast.ForStmt)
			if !ok || fs.Cond == nil {
				return true
			}
			n++
			perFn[f]++
			bad := ""
			ast.Inspect(fs.Cond, func(m ast.Node) bool {
				if cl, isCall := m.(*ast.CallExpr); isCall {
					if g := c.P.FnOf(core.Callee(f.Pkg, cl)); g != nil && hasLoop(g, 0) {
						bad = g.Name()
					}
				}
				return true
			})
			c.Analysed(f)
			c.Check(bad == "", rule, fmt.Sprintf("%s loop condition #%d is evaluated in constant time", f.Name(), perFn[f]), fs.Pos(),
				"the loop condition calls "+bad+", which itself loops: with one iteration per TLV of a sender-chosen message the decoder is quadratic in the message size (a single large message wedges the session)")
			return true
		})
	}
	c.Check(n >= 3, rule, "conditional loops in the BMP decoders", 0, fmt.Sprintf("only %d found", n))
}

// holdTimerPollRecurs: the states with a hold timer look at it from a select case that must come round again for as long
// as the state lasts (HoldTimer_Expires can only be noticed by that poll).  The case's channel is either made anew on every
// iteration (`time.After`), or a ticker, or a one-shot timer that the case body re-arms (`Reset`) before the loop goes on.
// A one-shot timer that fires once and is re-armed only when a message arrives never looks at the hold timer of a silent
// peer again: the session stays Established for ever with a dead neighbour.
func holdTimerPollRecurs(c *core.Ctx, rule string) {
	n := 0
	for _, f := range c.P.FuncsIn(srv) {
		if f.Decl.Body == nil || f.Decl.Recv == nil || f.Decl.Name.Name != "run" {
			continue
		}
		ast.Inspect(f.Decl.Body, func(nd ast.Node) bool {
			cc, ok := nd.(*ast.CommClause)
			if !ok || cc.Comm == nil {
				return true
			}
			polls := false
			for _, st := range cc.Body {
				if core.NodeHas(st, func(x ast.Node) bool {
					cl, isCall := x.(*ast.CallExpr)
					if !isCall {
						return false
					}
					g := core.Callee(f.Pkg, cl)
					return g != nil && g.Name() == "checkHoldtimer"
				}) {
					polls = true
				}
			}
			if !polls {
				return true
			}
			n++
			c.Analysed(f)
			var ch ast.Expr
			ast.Inspect(cc.Comm, func(x ast.Node) bool {
				if ue, isU := x.(*ast.UnaryExpr); isU && ue.Op.String() == "<-" {
					ch = core.Unparen(ue.X)
				}
				return true
			})
			ok2, why := false, "the poll's channel is neither time.After(…), a ticker's C nor a timer's C re-armed in the case"
			switch x := ch.(type) {
			case *ast.CallExpr:
				if core.FuncKey(core.Callee(f.Pkg, x)) == "time.After" {
					ok2 = true
				}
			case *ast.SelectorExpr:
				t := f.Pkg.TypesInfo.TypeOf(x.X)
				ts := ""
				if t != nil {
					ts = t.String()
				}
				switch {
				case x.Sel.Name == "C" && strings.HasSuffix(ts, "time.Ticker"):
					ok2 = true
				case x.Sel.Name == "C" && strings.HasSuffix(ts, "time.Timer"):
					for _, st := range cc.Body {
						if core.NodeHas(st, func(y ast.Node) bool {
							cl, isCall := y.(*ast.CallExpr)
							if !isCall {
								return false
							}
							se, isSel := cl.Fun.(*ast.SelectorExpr)
							return isSel && se.Sel.Name == "Reset" && core.SameExpr(f.Pkg, se.X, x.X)
						}) {
							ok2 = true
						}
					}
					why = "the poll waits on a one-shot timer that the case does not re-arm: after it has fired once the hold timer is never looked at again unless something else re-arms it"
				}
			}
			c.Check(ok2, rule, f.Name()+" the hold timer poll comes round on every iteration", cc.Pos(), why+": a silent peer's session is never torn down (HoldTimer_Expires is lost)")
			return true
		})
	}
	c.Check(n >= 3, rule, "hold timer polls in the state loops", 0, fmt.Sprintf("only %d found", n))
}
