#!/usr/bin/env python3
"""Prints the size numbers quoted in DESIGN.md §9.7 from evidence/, the registry, seeded/ and known_findings.json."""
import json,glob,re,subprocess
rules=set(); obl=0
for f in sorted(glob.glob('/verif/evidence/C*.json')):
    cov=json.load(open(f))['coverage']
    by=cov.get('obligations_by_rule') or {}
    rules|=set(by)
    obl+=sum(v if isinstance(v,int) else sum(v.values()) if isinstance(v,dict) else 0 for v in by.values())
src=''.join(open(f).read() for f in glob.glob('/verif/engine/props/*.go'))
ctl=len(re.findall(r'\{Name: "',src)); silent=len(re.findall(r'Silent: true',src))
seeds=len(glob.glob('/verif/seeded/C*-[a-j]'))
fixes=subprocess.check_output(['git','-C','/repo','log','--oneline']).decode().count(' fix:')
kf=json.load(open('/verif/known_findings.json'))['findings']
print(f"rules={len(rules)} obligations={obl} controls={ctl} (mutation {ctl-silent}, silent {silent}) seeds={seeds} fix_commits={fixes} fixed_entries={sum(1 for e in kf if e['kind']=='fixed')} known_constructs={sum(1 for e in kf if e['kind']=='known')}")
