#!/usr/bin/env python3
"""Prints the size numbers quoted in DESIGN.md §9.7 from evidence/, the registry, seeded/ and known_findings.json."""
import json,glob,re,subprocess
rules=set(); obl=0
for f in sorted(glob.glob('/verif/evidence/C*.json')):
    cov=json.load(open(f))['coverage']
    by=cov.get('obligations_by_rule') or {}
    rules|=set(by)
    obl+=sum(v if isinstance(v,int) else sum(v.values()) if isinstance(v,dict) else 0 for v in by.values())
src=''.join(open(f).read() for f in glob.glob('/verif/engine/props/*.go'))
ctl=len(re.findall(r'\{Name: "',src)); silent=len(re.findall(r'Silent: true',src))
seeds=len(glob.glob('/verif/seeded/C*-[a-j]'))
fixes=subprocess.check_output(['git','-C','/repo','log','--oneline']).decode().count(' fix:')
kf=json.load(open('/verif/known_findings.json'))['findings']
print(f"rules={len(rules)} obligations={obl} controls={ctl} (mutation {ctl-silent}, silent {silent}) seeds={seeds} fix_commits={fixes} fixed_entries={sum(1 for e in kf if e['kind']=='fixed')} known_constructs={sum(1 for e in kf if e['kind']=='known')}")
import sys
if '--patch' in sys.argv:
    p='/verif/DESIGN.md'; s=open(p).read()
    i=s.index('* Size of the machinery at the end of the build:'); j=s.index('\n* `devtest.sh',i)
    new=(f"* Size of the machinery at the end of the build: 36 checks, {len(rules)} distinct rules, about {round(obl,-1):,} obligations on the unchanged\n"
         f"  tree, {ctl} controls ({ctl-silent} mutation controls that must be reported, {silent} behaviour-preserving rewrites that must stay\n"
         f"  silent), {seeds} independently written seeded changes kept under `seeded/` with their demonstration tests, {fixes} `fix:`\n"
         f"  commits in /repo ({sum(1 for e in kf if e['kind']=='fixed')} `fixed` entries, one per property and construct they repair) and {sum(1 for e in kf if e['kind']=='known')} recorded known-finding\n"
         f"  constructs (7 distinct defects) in `known_findings.json`, each with a reproduction under `repro/`.  `bin/vcheck -all` (all 36 on one load) takes under a minute on an idle machine; a\n"
         f"  thorough run of one property 30–90 s on an idle machine (one reload of the program per control).\n")
    s=s[:i]+new+s[j+1:]
    open(p,'w').write(s)
    print('patched')
