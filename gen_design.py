#!/usr/bin/env python3
"""Regenerates the generated tables of DESIGN.md §9 from evidence/, known_findings.json and seeded/RESULTS.md.
   §9.2 and §9.4 and the table of §9.6 are replaced; §9.3 gets a row appended for every fixed commit not yet mentioned."""
import json, re, glob, os
os.chdir('/verif')
d = open('DESIGN.md').read()

def replace_table(text, section_header, first_col_header, new_rows):
    i = text.index(section_header)
    j = text.index(first_col_header, i)
    # table runs until the first line that does not start with '|'
    k = j
    while True:
        e = text.find('\n', k)
        if e < 0:
            e = len(text); break
        nxt = text[e+1:e+2]
        k = e + 1
        if nxt != '|':
            break
    return text[:j] + new_rows + text[k:]

# 9.2
rows = ["| property | obligations | functions | rules × instances |", "|---|---|---|---|"]
for f in sorted(glob.glob('evidence/C*.json')):
    e = json.load(open(f)); c = e['coverage']
    br = c.get('obligations_by_rule', {})
    rows.append("| %s | %s | %s | %s |" % (e['property_id'], c.get('obligations'), c.get('functions_analysed', c.get('functions')), ", ".join("%s×%d" % (r, n) for r, n in sorted(br.items()))))
d = replace_table(d, "### 9.2 ", "| property | obligations |", "\n".join(rows) + "\n")

# 9.3 append
k = json.load(open('known_findings.json'))['findings']
i3 = d.index("### 9.3 "); i4 = d.index("### 9.4 ")
sec = d[i3:i4]
seen = set()
add = []
for f in k:
    if f['kind'] != 'fixed':
        continue
    key = (f['property'], f['commit'])
    if key in seen:
        continue
    seen.add(key)
    if f['commit'][:8] in sec and ("| %s | %s" % (f['property'], f['commit'][:8])) in sec:
        continue
    what = f['what']
    if len(what) > 260:
        what = what[:257] + "…"
    add.append("| %s | %s | %s | %s |" % (f['property'], f['commit'][:8], what.replace('|', '/'), f.get('repro', '')))
if add:
    # insert after the last table row of the section
    lines = sec.rstrip('\n').split('\n')
    last = max(n for n, l in enumerate(lines) if l.startswith('|'))
    lines[last+1:last+1] = add
    d = d[:i3] + "\n".join(lines) + "\n\n" + d[i4:]

# 9.4
rows = ["| property | rule / construct | what fails and why it is not repaired here | reproduction |", "|---|---|---|---|"]
for f in k:
    if f['kind'] != 'known':
        continue
    rows.append("| %s | %s — `%s` | %s | %s |" % (f['property'], f['rule'], f['construct'], f['what'].replace('|', '/'), f.get('repro', '')))
d = replace_table(d, "### 9.4 ", "| property | rule / construct |", "\n".join(rows) + "\n")

# 9.6 table
r = open('seeded/RESULTS.md').read()
tbl = "\n".join(l for l in r.split('\n') if l.startswith('|')) + "\n"
d = replace_table(d, "### 9.6 ", "| seed |", tbl)
open('DESIGN.md', 'w').write(d)
print("DESIGN.md tables regenerated; %d fix rows appended" % len(add))
