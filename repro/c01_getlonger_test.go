package repro

import (
	"testing"

	bnet "github.com/bio-routing/bio-rd/net"
	"github.com/bio-routing/bio-rd/route"
	"github.com/bio-routing/bio-rd/routingtable"
)

// C01: the more-specifics lookup must list stored prefixes inside the query even when the query itself is not stored.
func TestC01GetLongerAbsentQuery(t *testing.T) {
	rt := routingtable.NewRoutingTable()
	rt.AddPath(bnet.NewPfx(bnet.IPv4FromOctets(10, 1, 0, 0), 16).Ptr(), &route.Path{Type: route.StaticPathType, StaticPath: &route.StaticPath{NextHop: bnet.IPv4(1).Ptr()}})
	rt.AddPath(bnet.NewPfx(bnet.IPv4FromOctets(10, 2, 0, 0), 16).Ptr(), &route.Path{Type: route.StaticPathType, StaticPath: &route.StaticPath{NextHop: bnet.IPv4(1).Ptr()}})
	rt.AddPath(bnet.NewPfx(bnet.IPv4FromOctets(11, 0, 0, 0), 8).Ptr(), &route.Path{Type: route.StaticPathType, StaticPath: &route.StaticPath{NextHop: bnet.IPv4(1).Ptr()}})
	res := rt.GetLonger(bnet.NewPfx(bnet.IPv4FromOctets(10, 0, 0, 0), 8).Ptr())
	if len(res) != 2 {
		t.Fatalf("GetLonger(10.0.0.0/8) with 10.1/16 and 10.2/16 stored: got %d routes, want 2", len(res))
	}
	res = rt.GetLonger(bnet.NewPfx(bnet.IPv4FromOctets(10, 1, 0, 0), 16).Ptr())
	if len(res) != 1 {
		t.Fatalf("GetLonger(10.1.0.0/16): got %d routes, want 1", len(res))
	}
	res = rt.GetLonger(bnet.NewPfx(bnet.IPv4FromOctets(12, 0, 0, 0), 8).Ptr())
	if len(res) != 0 {
		t.Fatalf("GetLonger(12.0.0.0/8): got %d routes, want 0", len(res))
	}
	res = rt.GetLonger(bnet.NewPfx(bnet.IPv4FromOctets(0, 0, 0, 0), 0).Ptr())
	if len(res) != 3 {
		t.Fatalf("GetLonger(0/0): got %d routes, want 3", len(res))
	}
}
