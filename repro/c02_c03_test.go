package repro

import (
	"testing"

	bnet "github.com/bio-routing/bio-rd/net"
	"github.com/bio-routing/bio-rd/protocols/bgp/types"
	"github.com/bio-routing/bio-rd/route"
)

func bp(id uint32, orig uint32, cl *types.ClusterList, src uint32) *route.Path {
	return &route.Path{Type: route.BGPPathType, BGPPath: &route.BGPPath{
		ASPath:      &types.ASPath{},
		ClusterList: cl,
		BGPPathA: &route.BGPPathA{BGPIdentifier: id, OriginatorID: orig, Source: bnet.IPv4(src).Ptr(), NextHop: bnet.IPv4(1).Ptr()},
	}}
}

// C02: the preference relation must be transitive. CLUSTER_LIST length is compared only when both lists are non-nil.
func TestC02SelectTransitive(t *testing.T) {
	cl1 := types.ClusterList{1}
	cl2 := types.ClusterList{1, 2}
	paths := []*route.Path{bp(1, 0, nil, 2), bp(1, 0, &cl1, 3), bp(1, 0, &cl2, 1), bp(1, 0, nil, 3), bp(1, 0, &cl1, 1), bp(1, 0, &cl2, 2)}
	bad := 0
	for _, a := range paths {
		for _, b := range paths {
			for _, c := range paths {
				if a.Select(b) > 0 && b.Select(c) > 0 && a.Select(c) <= 0 {
					bad++
				}
			}
		}
	}
	if bad > 0 {
		t.Fatalf("%d intransitive triple(s): a>b, b>c but not a>c", bad)
	}
}

// C02: best path and ECMP count with one BGP and one static path for a prefix must not panic.
func TestC02MixedTypesECMP(t *testing.T) {
	r := route.NewRoute(bnet.NewPfx(bnet.IPv4(0), 8).Ptr(), bp(1, 0, nil, 1))
	r.AddPath(&route.Path{Type: route.StaticPathType, StaticPath: &route.StaticPath{NextHop: bnet.IPv4(9).Ptr()}})
	r.PathSelection()
	if r.ECMPPathCount() != 1 {
		t.Fatalf("ecmp count %d", r.ECMPPathCount())
	}
}

// C03: lowest identifier (ORIGINATOR_ID in its place), then shorter CLUSTER_LIST, then lowest peer address win.
func TestC03TieBreakDirections(t *testing.T) {
	best := func(ps ...*route.Path) *route.Path {
		r := route.NewRoute(bnet.NewPfx(bnet.IPv4(0), 8).Ptr(), ps[0])
		for _, p := range ps[1:] {
			r.AddPath(p)
		}
		r.PathSelection()
		return r.BestPath()
	}
	lo, hi := bp(1, 0, nil, 5), bp(2, 0, nil, 5)
	if best(lo, hi) != lo || best(hi, lo) != lo {
		t.Errorf("identifier: path with the HIGHER BGP identifier selected")
	}
	lo, hi = bp(9, 1, nil, 5), bp(3, 2, nil, 5)
	if best(lo, hi) != lo || best(hi, lo) != lo {
		t.Errorf("originator id: path with the HIGHER ORIGINATOR_ID selected")
	}
	cl1 := types.ClusterList{1}
	cl2 := types.ClusterList{1, 2}
	sh, lg := bp(1, 0, &cl1, 5), bp(1, 0, &cl2, 5)
	if best(sh, lg) != sh || best(lg, sh) != sh {
		t.Errorf("cluster list: path with the LONGER CLUSTER_LIST selected")
	}
	none := bp(1, 0, nil, 5)
	if best(none, sh) != none || best(sh, none) != none {
		t.Errorf("cluster list: absent list (length 0) does not beat a one-entry list")
	}
	lo, hi = bp(1, 0, nil, 5), bp(1, 0, nil, 6)
	if best(lo, hi) != lo || best(hi, lo) != lo {
		t.Errorf("peer address: path from the HIGHER peer address selected")
	}
}
