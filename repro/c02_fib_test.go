package repro

import (
	"testing"

	bnet "github.com/bio-routing/bio-rd/net"
	"github.com/bio-routing/bio-rd/route"
)

// C02: the equal-cost set must not depend on arrival order. FIBPath.ECMP looks at Type, FIBPath.Select does not.
func TestC02FIBECMPOrder(t *testing.T) {
	mk := func(ty int) *route.Path {
		return &route.Path{Type: route.FIBPathType, FIBPath: &route.FIBPath{Src: bnet.IPv4(1).Ptr(), NextHop: bnet.IPv4(2).Ptr(), Type: ty}}
	}
	count := func(ps ...*route.Path) uint {
		r := route.NewRoute(bnet.NewPfx(bnet.IPv4(0), 8).Ptr(), ps[0])
		for _, p := range ps[1:] {
			r.AddPath(p)
		}
		r.PathSelection()
		return r.ECMPPathCount()
	}
	a, b, c := mk(1), mk(2), mk(1)
	if x, y := count(a, b, c), count(a, c, b); x != y {
		t.Fatalf("ECMP count depends on arrival order: %d vs %d", x, y)
	}
}
