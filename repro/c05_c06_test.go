package repro

import (
	"testing"

	bnet "github.com/bio-routing/bio-rd/net"
	"github.com/bio-routing/bio-rd/protocols/bgp/types"
	"github.com/bio-routing/bio-rd/route"
	"github.com/bio-routing/bio-rd/routingtable"
	"github.com/bio-routing/bio-rd/routingtable/adjRIBIn"
	"github.com/bio-routing/bio-rd/routingtable/filter"
	"github.com/bio-routing/bio-rd/routingtable/filter/actions"
	"github.com/bio-routing/bio-rd/routingtable/locRIB"
	"github.com/bio-routing/bio-rd/routingtable/vrf"
)

// C05: unregistering the session removes exactly what it contributed, even when the import policy rewrote the paths.
func TestC05UnregisterWithRewritingPolicy(t *testing.T) {
	pfx := bnet.NewPfx(bnet.IPv4FromOctets(10, 0, 0, 0), 8).Ptr()
	in, rib := c12RIBs(chainOf(nil, actions.NewSetLocalPrefAction(200), actions.NewAcceptAction()))
	in.AddPath(pfx, c12Path())
	in.Unregister(rib)
	if rib.Count() != 0 {
		t.Fatalf("Loc-RIB still holds %d route(s) of the unregistered session", rib.Count())
	}
}

func c06RIBs(c filter.Chain) (*adjRIBIn.AdjRIBIn, *locRIB.LocRIB) {
	v := vrf.NewUntrackedVRF("x", 0)
	v.AddContributingASN(65000)
	in := adjRIBIn.New(c, v, routingtable.SessionAttrs{Type: route.BGPPathType, RouterID: 1, PeerIP: bnet.IPv4(100).Ptr(), LocalASN: 65000, PeerASN: 65100})
	rib := locRIB.New("inet.0")
	return in, rib
}

func loopPath() *route.Path {
	p := c12Path()
	p.BGPPath.ASPath = &types.ASPath{{Type: types.ASSequence, ASNs: []uint32{65100, 65000}}} // contains the local ASN
	return p
}

// C06: an AS-loop path never reaches the Loc-RIB, however often the import policy is replaced …
func TestC06HiddenPathAfterPolicyReplacement(t *testing.T) {
	pfx := bnet.NewPfx(bnet.IPv4FromOctets(10, 0, 0, 0), 8).Ptr()
	in, rib := c06RIBs(filter.NewDrainFilterChain())
	in.Register(rib)
	in.AddPath(pfx, loopPath())
	in.ReplaceFilterChain(filter.NewAcceptAllFilterChain()) // reject -> accept
	if rib.Count() != 0 {
		t.Fatalf("ineligible (AS loop) path installed in the Loc-RIB after policy replacement")
	}
}

// … and whenever the Loc-RIB registers.
func TestC06HiddenPathLateRegistration(t *testing.T) {
	pfx := bnet.NewPfx(bnet.IPv4FromOctets(10, 0, 0, 0), 8).Ptr()
	in, rib := c06RIBs(filter.NewAcceptAllFilterChain())
	in.AddPath(pfx, loopPath())
	in.Register(rib)
	if rib.Count() != 0 {
		t.Fatalf("ineligible (AS loop) path handed to a client that registered later")
	}
}
