package repro

import (
	"testing"

	bnet "github.com/bio-routing/bio-rd/net"
	"github.com/bio-routing/bio-rd/protocols/bgp/types"
	"github.com/bio-routing/bio-rd/route"
	"github.com/bio-routing/bio-rd/routingtable"
	"github.com/bio-routing/bio-rd/routingtable/adjRIBOut"
	"github.com/bio-routing/bio-rd/routingtable/filter"
	"github.com/bio-routing/bio-rd/routingtable/filter/actions"
	"github.com/bio-routing/bio-rd/routingtable/locRIB"
)

func c08Path() *route.Path {
	return &route.Path{Type: route.BGPPathType, BGPPath: &route.BGPPath{
		ASPath: &types.ASPath{{Type: types.ASSequence, ASNs: []uint32{65100}}}, ASPathLen: 1,
		BGPPathA: &route.BGPPathA{EBGP: true, LocalPref: 100, Source: bnet.IPv4(100).Ptr(), NextHop: bnet.IPv4(1).Ptr()},
	}}
}

func c08Session(sa routingtable.SessionAttrs, chain filter.Chain) (*locRIB.LocRIB, *adjRIBOut.AdjRIBOut) {
	rib := locRIB.New("inet.0")
	sa.Type = route.BGPPathType
	sa.PeerIP, sa.LocalIP = bnet.IPv4(200).Ptr(), bnet.IPv4(201).Ptr()
	out := adjRIBOut.New(rib, sa, chain)
	rib.Register(out)
	return rib, out
}

// C08: after a withdrawal the Adj-RIB-Out of an eBGP session holds nothing that has since been withdrawn.
func TestC08EBGPWithdrawLeavesStalePath(t *testing.T) {
	rib, out := c08Session(routingtable.SessionAttrs{LocalASN: 65000, PeerASN: 65200}, filter.NewAcceptAllFilterChain())
	pfx := bnet.NewPfx(bnet.IPv4FromOctets(10, 0, 0, 0), 8).Ptr()
	p := c08Path()
	rib.AddPath(pfx, p)
	if out.RouteCount() != 1 {
		t.Fatalf("setup: %d", out.RouteCount())
	}
	rib.RemovePath(pfx, p)
	if out.RouteCount() != 0 {
		t.Errorf("eBGP: route withdrawn from the Loc-RIB is still in the Adj-RIB-Out (%d routes)", out.RouteCount())
	}
}

// C08: same for a route-reflector client (ORIGINATOR_ID / CLUSTER_LIST are added on the add side only).
func TestC08RRClientWithdrawLeavesStalePath(t *testing.T) {
	rib, out := c08Session(routingtable.SessionAttrs{LocalASN: 65000, PeerASN: 65000, IBGP: true, RouteReflectorClient: true, ClusterID: 9}, filter.NewAcceptAllFilterChain())
	pfx := bnet.NewPfx(bnet.IPv4FromOctets(10, 0, 0, 0), 8).Ptr()
	p := c08Path()
	p.BGPPath.BGPPathA.EBGP = false
	rib.AddPath(pfx, p)
	rib.RemovePath(pfx, p)
	if out.RouteCount() != 0 {
		t.Errorf("RR client: route withdrawn from the Loc-RIB is still in the Adj-RIB-Out (%d routes)", out.RouteCount())
	}
}

// C08: redistributed static route, withdrawn.
func TestC08RedistributedStaticWithdraw(t *testing.T) {
	rib, out := c08Session(routingtable.SessionAttrs{LocalASN: 65000, PeerASN: 65000, IBGP: true}, filter.NewAcceptAllFilterChain())
	pfx := bnet.NewPfx(bnet.IPv4FromOctets(10, 0, 0, 0), 8).Ptr()
	p := &route.Path{Type: route.StaticPathType, StaticPath: &route.StaticPath{NextHop: bnet.IPv4(5).Ptr()}}
	rib.AddPath(pfx, p)
	if out.RouteCount() != 1 {
		t.Fatalf("setup: static route not redistributed (%d)", out.RouteCount())
	}
	func() {
		defer func() {
			if r := recover(); r != nil {
				t.Errorf("withdrawing a redistributed static route panicked: %v", r)
			}
		}()
		rib.RemovePath(pfx, p)
	}()
	if out.RouteCount() != 0 {
		t.Errorf("static: route withdrawn from the Loc-RIB is still in the Adj-RIB-Out (%d routes)", out.RouteCount())
	}
}

// C13: replacing the export policy of an eBGP session must not alter the route stored in the Loc-RIB.
func TestC13RefreshMutatesLocRIB(t *testing.T) {
	rib, out := c08Session(routingtable.SessionAttrs{LocalASN: 65000, PeerASN: 65200}, filter.NewAcceptAllFilterChain())
	pfx := bnet.NewPfx(bnet.IPv4FromOctets(10, 0, 0, 0), 8).Ptr()
	rib.AddPath(pfx, c08Path())
	before := rib.Get(pfx).Paths()[0].BGPPath.ASPath.String()
	nh := rib.Get(pfx).Paths()[0].BGPPath.BGPPathA.NextHop.String()
	out.ReplaceFilterChain(chainOf(nil, actions.NewSetMEDAction(5), actions.NewAcceptAction()))
	after := rib.Get(pfx).Paths()[0].BGPPath.ASPath.String()
	if before != after {
		t.Errorf("export policy replacement rewrote the AS path stored in the Loc-RIB: %q -> %q", before, after)
	}
	if nh2 := rib.Get(pfx).Paths()[0].BGPPath.BGPPathA.NextHop.String(); nh2 != nh {
		t.Errorf("export policy replacement rewrote the next hop stored in the Loc-RIB: %s -> %s", nh, nh2)
	}
}
