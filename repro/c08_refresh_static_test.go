package repro

import (
	"testing"

	bnet "github.com/bio-routing/bio-rd/net"
	"github.com/bio-routing/bio-rd/route"
	"github.com/bio-routing/bio-rd/routingtable"
	"github.com/bio-routing/bio-rd/routingtable/filter"
	"github.com/bio-routing/bio-rd/routingtable/filter/actions"
)

// C08/C12: replacing the export policy of a session that redistributes a static route must not crash and must
// leave the redistributed route in the Adj-RIB-Out.
func TestC08RefreshWithRedistributedStatic(t *testing.T) {
	rib, out := c08Session(routingtable.SessionAttrs{LocalASN: 65000, PeerASN: 65000, IBGP: true}, filter.NewAcceptAllFilterChain())
	pfx := bnet.NewPfx(bnet.IPv4FromOctets(10, 0, 0, 0), 8).Ptr()
	rib.AddPath(pfx, &route.Path{Type: route.StaticPathType, StaticPath: &route.StaticPath{NextHop: bnet.IPv4(5).Ptr()}})
	func() {
		defer func() {
			if r := recover(); r != nil {
				t.Fatalf("export policy replacement panicked with a static route in the Loc-RIB: %v", r)
			}
		}()
		out.ReplaceFilterChain(chainOf(nil, actions.NewSetMEDAction(5), actions.NewAcceptAction()))
	}()
	r := out.Get(pfx)
	if r == nil || len(r.Paths()) != 1 || r.Paths()[0].BGPPath == nil || r.Paths()[0].BGPPath.BGPPathA.MED != 5 {
		t.Errorf("redistributed static route not re-exported with the new policy")
	}
}
