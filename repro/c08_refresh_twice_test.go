package repro

import (
	"testing"

	bnet "github.com/bio-routing/bio-rd/net"
	"github.com/bio-routing/bio-rd/routingtable"
	"github.com/bio-routing/bio-rd/routingtable/filter"
	"github.com/bio-routing/bio-rd/routingtable/filter/actions"
)

// C08/C12: export policy "prepend; accept" replaced by reject-all: the Adj-RIB-Out must be empty afterwards.
func TestC08RefreshAppliesPolicyTwiceOnRemove(t *testing.T) {
	rib, out := c08Session(routingtable.SessionAttrs{LocalASN: 65000, PeerASN: 65000, IBGP: true}, chainOf(nil, actions.NewASPathPrependAction(65001, 1), actions.NewAcceptAction()))
	pfx := bnet.NewPfx(bnet.IPv4FromOctets(10, 0, 0, 0), 8).Ptr()
	rib.AddPath(pfx, c08Path())
	if out.RouteCount() != 1 {
		t.Fatalf("setup %d", out.RouteCount())
	}
	out.ReplaceFilterChain(filter.NewDrainFilterChain())
	if out.RouteCount() != 0 {
		t.Errorf("route rejected by the new export policy is still in the Adj-RIB-Out (%d)", out.RouteCount())
	}
}

// C08: add-path session with a prepending export policy; a path that must not be propagated (learned from the peer
// itself) arrives for the prefix: the code tries to remove the prefix's paths and fails to find them.
func TestC08RemovePathsForPrefixReprocessesStoredPaths(t *testing.T) {
	rib, out := c08Session(routingtable.SessionAttrs{LocalASN: 65000, PeerASN: 65000, IBGP: true, AddPathTX: true}, chainOf(nil, actions.NewASPathPrependAction(65001, 1), actions.NewAcceptAction()))
	_ = rib
	pfx := bnet.NewPfx(bnet.IPv4FromOctets(10, 0, 0, 0), 8).Ptr()
	out.AddPath(pfx, c08Path())
	own := c08Path()
	own.BGPPath.BGPPathA.Source = bnet.IPv4(200).Ptr() // learned from the peer itself
	out.AddPath(pfx, own)
	if out.RouteCount() != 0 {
		t.Errorf("removePathsForPrefix did not remove the stored path (%d routes left): the stored path was run through the export policy again before the lookup", out.RouteCount())
	}
}
