package repro

import (
	"testing"

	bnet "github.com/bio-routing/bio-rd/net"
	"github.com/bio-routing/bio-rd/routingtable"
	"github.com/bio-routing/bio-rd/routingtable/filter"
)

// C08/C10: on an add-path session, when a path that must not be propagated arrives for a prefix, the paths exported for
// that prefix are taken out of the Adj-RIB-Out — the peer has to be told (withdrawals to the update sender).
func TestC08PrefixWipeWithdrawsFromThePeer(t *testing.T) {
	_, out := c08Session(routingtable.SessionAttrs{LocalASN: 65000, PeerASN: 65000, IBGP: true, AddPathTX: true}, filter.NewAcceptAllFilterChain())
	sender := routingtable.NewRTMockClient()
	out.Register(sender)
	pfx := bnet.NewPfx(bnet.IPv4FromOctets(10, 0, 0, 0), 8).Ptr()
	a, b := c08Path(), c08Path()
	b.BGPPath.BGPPathA.MED = 7
	out.AddPath(pfx, a)
	out.AddPath(pfx, b)
	if out.RouteCount() != 1 || len(out.Dump()[0].Paths()) != 2 {
		t.Fatalf("setup: %d routes", out.RouteCount())
	}
	own := c08Path()
	own.BGPPath.BGPPathA.Source = bnet.IPv4(200).Ptr() // learned from the peer itself: not propagated, wipes the prefix
	out.AddPath(pfx, own)
	if out.RouteCount() != 0 {
		t.Fatalf("prefix not wiped (%d routes)", out.RouteCount())
	}
	if n := len(sender.Removed()); n != 2 {
		t.Errorf("the Adj-RIB-Out dropped 2 exported paths but handed %d withdrawals to the update sender: the peer keeps routes the Adj-RIB-Out no longer holds", n)
	}
}
