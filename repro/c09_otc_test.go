package repro

import (
	"bytes"
	"testing"

	"github.com/bio-routing/bio-rd/protocols/bgp/packet"
)

// C09: "OTC is added towards customers, peers and RS clients" — the attribute set by the Adj-RIB-Out must reach the wire.
func TestC09OTCReachesTheWire(t *testing.T) {
	p := c08Path()
	p.BGPPath.BGPPathA.OnlyToCustomer = 65000
	pa, err := packet.PathAttributes(p, false, false)
	if err != nil {
		t.Fatal(err)
	}
	found := false
	for a := pa; a != nil; a = a.Next {
		if a.TypeCode == packet.OnlyToCustomerAttr {
			found = true
		}
	}
	buf := bytes.NewBuffer(nil)
	for a := pa; a != nil; a = a.Next {
		a.Serialize(buf, &packet.EncodeOptions{Use32BitASN: true})
	}
	if !found {
		t.Errorf("path with OTC=65000: PathAttributes() yields no OTC attribute (type %d); serialized attributes: % x", packet.OnlyToCustomerAttr, buf.Bytes())
	}
}
