package repro

import (
	"testing"

	bnet "github.com/bio-routing/bio-rd/net"
	"github.com/bio-routing/bio-rd/protocols/bgp/types"
	"github.com/bio-routing/bio-rd/route"
	"github.com/bio-routing/bio-rd/routingtable"
	"github.com/bio-routing/bio-rd/routingtable/adjRIBOut"
	"github.com/bio-routing/bio-rd/routingtable/filter"
	"github.com/bio-routing/bio-rd/routingtable/locRIB"
)

func c11Path(lp uint32) *route.Path {
	return &route.Path{Type: route.BGPPathType, BGPPath: &route.BGPPath{
		ASPath:   &types.ASPath{},
		BGPPathA: &route.BGPPathA{EBGP: true, LocalPref: lp, Source: bnet.IPv4(100).Ptr(), NextHop: bnet.IPv4(1).Ptr()},
	}}
}

func c11Out() *adjRIBOut.AdjRIBOut {
	return adjRIBOut.New(locRIB.New("x"), routingtable.SessionAttrs{Type: route.BGPPathType, IBGP: true, AddPathTX: true,
		PeerIP: bnet.IPv4(200).Ptr(), LocalIP: bnet.IPv4(201).Ptr()}, filter.NewAcceptAllFilterChain())
}

// C11: identifier allocation keeps working while fewer than 2^32-1 identifiers are in use.
func TestC11SpuriousExhaustion(t *testing.T) {
	a := c11Out()
	pa, pb, pc := bnet.NewPfx(bnet.IPv4FromOctets(10, 0, 0, 0), 8).Ptr(), bnet.NewPfx(bnet.IPv4FromOctets(11, 0, 0, 0), 8).Ptr(), bnet.NewPfx(bnet.IPv4FromOctets(12, 0, 0, 0), 8).Ptr()
	a.AddPath(pa, c11Path(100))
	a.AddPath(pb, c11Path(100)) // same attributes: shares the identifier
	a.RemovePath(pa, c11Path(100))
	a.RemovePath(pb, c11Path(100))
	if err := a.AddPath(pc, c11Path(200)); err != nil {
		t.Fatalf("allocation failed with zero identifiers in use: %v", err)
	}
}

// C11: two different paths advertised for the same prefix carry different identifiers.
func TestC11DistinctPathsDistinctIDs(t *testing.T) {
	a := c11Out()
	pfx := bnet.NewPfx(bnet.IPv4FromOctets(10, 0, 0, 0), 8).Ptr()
	p1, p2 := c11Path(100), c11Path(100)
	p2.BGPPath.UnknownAttributes = []types.UnknownPathAttribute{{Optional: true, Transitive: true, TypeCode: 99, Value: []byte{1}}}
	a.AddPath(pfx, p1)
	a.AddPath(pfx, p2)
	ps := a.Get(pfx).Paths()
	if len(ps) != 2 {
		t.Fatalf("want 2 paths, got %d", len(ps))
	}
	if ps[0].BGPPath.PathIdentifier == ps[1].BGPPath.PathIdentifier {
		t.Fatalf("two different paths for one prefix share path identifier %d", ps[0].BGPPath.PathIdentifier)
	}
	p3, p4 := c11Path(300), c11Path(300)
	p4.BGPPath.BGPPathA.OnlyToCustomer = 65000
	pfx2 := bnet.NewPfx(bnet.IPv4FromOctets(20, 0, 0, 0), 8).Ptr()
	a.AddPath(pfx2, p3)
	a.AddPath(pfx2, p4)
	ps = a.Get(pfx2).Paths()
	if len(ps) == 2 && ps[0].BGPPath.PathIdentifier == ps[1].BGPPath.PathIdentifier {
		t.Fatalf("paths differing in OTC share path identifier %d", ps[0].BGPPath.PathIdentifier)
	}
}

type c11Client struct{ removed []*route.Path }

func (c *c11Client) AddPath(*bnet.Prefix, *route.Path) error            { return nil }
func (c *c11Client) AddPathInitialDump(*bnet.Prefix, *route.Path) error { return nil }
func (c *c11Client) EndOfRIB()                                          {}
func (c *c11Client) RemovePath(_ *bnet.Prefix, p *route.Path) bool      { c.removed = append(c.removed, p); return true }
func (c *c11Client) ReplacePath(*bnet.Prefix, *route.Path, *route.Path) {}
func (c *c11Client) RefreshRoute(*bnet.Prefix, []*route.Path)           {}
func (c *c11Client) Dispose()                                           {}

// C11: a withdrawal carries the identifier its path was announced with — also when an export policy rewrote
// attributes the preference comparison does not look at (communities), i.e. when the stored path hashes differently
// from the path re-derived on the remove side... here: when a policy REPLACED between add and remove is not needed;
// the remove side re-applies the same policy, so the released hash is that of the re-derived path.
func TestC11WithdrawCarriesID(t *testing.T) {
	a := c11Out()
	cl := &c11Client{}
	a.Register(cl)
	pfx := bnet.NewPfx(bnet.IPv4FromOctets(10, 0, 0, 0), 8).Ptr()
	a.AddPath(pfx, c11Path(100))
	id := a.Get(pfx).Paths()[0].BGPPath.PathIdentifier
	// same preference (Select == 0) but different communities than what is stored
	q := c11Path(100)
	q.BGPPath.Communities = &types.Communities{4242}
	ok := a.RemovePath(pfx, q)
	if ok && (len(cl.removed) != 1 || cl.removed[0].BGPPath.PathIdentifier != id) {
		t.Fatalf("path removed from the table but no withdrawal with identifier %d reached the client (removed=%v)", id, cl.removed)
	}
}
