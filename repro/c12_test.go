package repro

import (
	"testing"

	bnet "github.com/bio-routing/bio-rd/net"
	"github.com/bio-routing/bio-rd/protocols/bgp/types"
	"github.com/bio-routing/bio-rd/route"
	"github.com/bio-routing/bio-rd/routingtable"
	"github.com/bio-routing/bio-rd/routingtable/adjRIBIn"
	"github.com/bio-routing/bio-rd/routingtable/filter"
	"github.com/bio-routing/bio-rd/routingtable/filter/actions"
	"github.com/bio-routing/bio-rd/routingtable/locRIB"
	"github.com/bio-routing/bio-rd/routingtable/vrf"
)

func chainOf(from []*filter.TermCondition, acts ...actions.Action) filter.Chain {
	return filter.Chain{filter.NewFilter("f", []*filter.Term{filter.NewTerm("t", from, acts)})}
}

func c12Path() *route.Path {
	return &route.Path{Type: route.BGPPathType, BGPPath: &route.BGPPath{
		ASPath: &types.ASPath{{Type: types.ASSequence, ASNs: []uint32{65100}}}, ASPathLen: 1,
		BGPPathA: &route.BGPPathA{EBGP: true, LocalPref: 100, Source: bnet.IPv4(100).Ptr(), NextHop: bnet.IPv4(1).Ptr(), OriginatorID: 7},
	}}
}

// C12/C14: two chains that compare equal produce identical outcomes on every input.
func TestC12EqualChainsBehaveEqually(t *testing.T) {
	pfx := bnet.NewPfx(bnet.IPv4FromOctets(10, 0, 0, 0), 8).Ptr()
	other := bnet.NewPfx(bnet.IPv4FromOctets(11, 0, 0, 0), 8).Ptr()
	cases := []struct {
		name string
		a, b filter.Chain
	}{
		{"local-pref value", chainOf(nil, actions.NewSetLocalPrefAction(100), actions.NewAcceptAction()), chainOf(nil, actions.NewSetLocalPrefAction(200), actions.NewAcceptAction())},
		{"prefix list", chainOf([]*filter.TermCondition{filter.NewTermConditionWithPrefixLists(filter.NewPrefixList(pfx))}, actions.NewRejectAction()),
			chainOf([]*filter.TermCondition{filter.NewTermConditionWithPrefixLists(filter.NewPrefixList(other))}, actions.NewRejectAction())},
		{"protocols", chainOf([]*filter.TermCondition{filter.NewTermConditionWithProtocols(route.BGPPathType)}, actions.NewRejectAction()),
			chainOf([]*filter.TermCondition{filter.NewTermConditionWithProtocols(route.StaticPathType)}, actions.NewRejectAction())},
	}
	for _, tc := range cases {
		pa, ra := tc.a.Process(pfx, c12Path())
		pb, rb := tc.b.Process(pfx, c12Path())
		same := ra == rb && pa.Compare(pb)
		if tc.a.Equal(tc.b) && !same {
			t.Errorf("%s: chains compare equal but outcomes differ (reject %v/%v)", tc.name, ra, rb)
		}
	}
}

func c12RIBs(c filter.Chain) (*adjRIBIn.AdjRIBIn, *locRIB.LocRIB) {
	v := vrf.NewUntrackedVRF("x", 0)
	in := adjRIBIn.New(c, v, routingtable.SessionAttrs{Type: route.BGPPathType, RouterID: 1, PeerIP: bnet.IPv4(100).Ptr()})
	rib := locRIB.New("inet.0")
	in.Register(rib)
	return in, rib
}

// C12: after replacing the import policy the Loc-RIB equals what the new policy yields from the start.
func TestC12ReplaceDetectsASPathContent(t *testing.T) {
	pfx := bnet.NewPfx(bnet.IPv4FromOctets(10, 0, 0, 0), 8).Ptr()
	in, rib := c12RIBs(chainOf(nil, actions.NewASPathPrependAction(65001, 1), actions.NewAcceptAction()))
	in.AddPath(pfx, c12Path())
	in.ReplaceFilterChain(chainOf(nil, actions.NewASPathPrependAction(65002, 1), actions.NewAcceptAction()))
	got := rib.Get(pfx).Paths()[0].BGPPath.ASPath.String()
	if got != "65002 65100" {
		t.Fatalf("Loc-RIB AS path after policy replacement: %q, want %q", got, "65002 65100")
	}
}

func TestC12ReplaceAcceptToRejectWithdrawsRewrittenPath(t *testing.T) {
	pfx := bnet.NewPfx(bnet.IPv4FromOctets(10, 0, 0, 0), 8).Ptr()
	in, rib := c12RIBs(chainOf(nil, actions.NewSetLocalPrefAction(200), actions.NewAcceptAction()))
	in.AddPath(pfx, c12Path())
	if rib.Count() != 1 {
		t.Fatalf("setup: count %d", rib.Count())
	}
	in.ReplaceFilterChain(filter.NewDrainFilterChain())
	if rib.Count() != 0 {
		t.Fatalf("route rejected by the new policy still in the Loc-RIB (count=%d)", rib.Count())
	}
}
