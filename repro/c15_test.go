package repro

import (
	"testing"

	bnet "github.com/bio-routing/bio-rd/net"
	"github.com/bio-routing/bio-rd/route"
	"github.com/bio-routing/bio-rd/routingtable"
)

func p6(s string) *bnet.Prefix {
	p, err := bnet.PrefixFromString(s)
	if err != nil {
		panic(err)
	}
	return p
}

// C15: prefix containment agrees with its definition on the address bits.
func TestC15ContainsIPv6(t *testing.T) {
	if p6("2001:db8:1::/48").Contains(p6("3001:db8:1:1::/64")) {
		t.Errorf("2001:db8:1::/48 'contains' 3001:db8:1:1::/64 (top 16 bits ignored)")
	}
	if p6("2001:db8::1:0:0:0/80").Contains(p6("3001:db8::1:0:0:1/128")) {
		t.Errorf("a /80 'contains' an address that differs in the first 16 bits")
	}
	if !p6("2001:db8:1::/48").Contains(p6("2001:db8:1:1::/64")) {
		t.Errorf("2001:db8:1::/48 must contain 2001:db8:1:1::/64")
	}
}

// C15: common supernet of two prefixes sharing exactly 64 leading bits.
func TestC15SupernetAt64(t *testing.T) {
	s := p6("2001:db8:0:1::1/128").GetSupernet(p6("2001:db8:0:1:8000::1/128"))
	if s.String() != "2001:db8:0:1::/64" {
		t.Errorf("supernet = %s, want 2001:db8:0:1::/64", s.String())
	}
}

// C01 consequence: both host routes must be retrievable.
func TestC01IPv6SiblingsBelow64(t *testing.T) {
	rt := routingtable.NewRoutingTable()
	pa := &route.Path{Type: route.StaticPathType, StaticPath: &route.StaticPath{NextHop: bnet.IPv4(1).Ptr()}}
	a, b := p6("2001:db8:0:1::1/128"), p6("2001:db8:0:1:8000::1/128")
	rt.AddPath(a, pa)
	rt.AddPath(b, pa)
	if rt.Get(a) == nil || rt.Get(b) == nil || len(rt.Dump()) != 2 {
		t.Errorf("lost a route: get(a)=%v get(b)=%v dump=%d", rt.Get(a) != nil, rt.Get(b) != nil, len(rt.Dump()))
	}
	if got := len(rt.LPM(a)); got != 1 {
		t.Errorf("LPM(a) lists %d routes, want 1", got)
	}
}
