package repro

import (
	"bytes"
	"testing"

	bnet "github.com/bio-routing/bio-rd/net"
	"github.com/bio-routing/bio-rd/protocols/bgp/packet"
	"github.com/bio-routing/bio-rd/protocols/bgp/types"
	"github.com/bio-routing/bio-rd/route"
)

func c17Path() *route.Path {
	return &route.Path{Type: route.BGPPathType, BGPPath: &route.BGPPath{
		BGPPathA: &route.BGPPathA{NextHop: bnet.IPv4FromOctets(10, 0, 0, 1).Ptr(), Source: bnet.IPv4(0).Ptr(), LocalPref: 100},
		ASPath:   &types.ASPath{},
	}}
}

func c17RoundTrip(t *testing.T, p *route.Path, iBGP, rr bool) *packet.BGPUpdate {
	t.Helper()
	pa, err := packet.PathAttributes(p, iBGP, rr)
	if err != nil {
		t.Fatal(err)
	}
	u := &packet.BGPUpdate{PathAttributes: pa, NLRI: &packet.NLRI{Prefix: bnet.NewPfx(bnet.IPv4FromOctets(10, 0, 0, 0), 8).Ptr()}}
	b, err := u.SerializeUpdate(&packet.EncodeOptions{Use32BitASN: true})
	if err != nil {
		t.Fatalf("serialize: %v", err)
	}
	m, err := packet.Decode(bytes.NewBuffer(b), &packet.DecodeOptions{Use32BitASN: true})
	if err != nil {
		t.Fatalf("emitted UPDATE (%d bytes) does not decode: %v", len(b), err)
	}
	return m.Body.(*packet.BGPUpdate)
}

// C17: prepending to a path whose first segment holds 255 ASNs
func TestC17PrependToFullSegment(t *testing.T) {
	p := c17Path()
	asns := make([]uint32, 255)
	for i := range asns {
		asns[i] = uint32(65000 + i)
	}
	p.BGPPath.ASPath = &types.ASPath{{Type: types.ASSequence, ASNs: asns}}
	p.BGPPath.Prepend(64512, 1)
	u := c17RoundTrip(t, p, false, false)
	n := 0
	for a := u.PathAttributes; a != nil; a = a.Next {
		if a.TypeCode == packet.ASPathAttr {
			for _, s := range *a.Value.(*types.ASPath) {
				n += len(s.ASNs)
			}
		}
	}
	if n != 256 {
		t.Errorf("AS path of 256 ASNs decoded with %d ASNs", n)
	}
}

// C17: CLUSTER_LIST with 64 or more entries
func TestC17LongClusterList(t *testing.T) {
	p := c17Path()
	cl := make(types.ClusterList, 70)
	for i := range cl {
		cl[i] = uint32(i + 1)
	}
	p.BGPPath.ClusterList = &cl
	u := c17RoundTrip(t, p, true, true)
	for a := u.PathAttributes; a != nil; a = a.Next {
		if a.TypeCode == packet.ClusterListAttr {
			if got := len(*a.Value.(*types.ClusterList)); got != 70 {
				t.Errorf("cluster list of 70 decoded with %d entries", got)
			}
			return
		}
	}
	t.Errorf("cluster list lost")
}

// C17: unknown transitive attribute of more than 255 bytes
func TestC17LongUnknownAttribute(t *testing.T) {
	p := c17Path()
	p.BGPPath.UnknownAttributes = []types.UnknownPathAttribute{{Optional: true, Transitive: true, TypeCode: 200, Value: bytes.Repeat([]byte{7}, 300)}}
	u := c17RoundTrip(t, p, false, false)
	for a := u.PathAttributes; a != nil; a = a.Next {
		if a.TypeCode == 200 {
			if got := len(a.Value.([]byte)); got != 300 {
				t.Errorf("unknown attribute of 300 bytes decoded with %d bytes", got)
			}
			return
		}
	}
	t.Errorf("unknown attribute lost")
}
