package repro

import (
	"testing"

	bnet "github.com/bio-routing/bio-rd/net"
	"github.com/bio-routing/bio-rd/protocols/bgp/packet"
	"github.com/bio-routing/bio-rd/protocols/bgp/types"
	"github.com/bio-routing/bio-rd/route"
)

// C17: a path without a CLUSTER_LIST sent to a route-reflector client (e.g. a redistributed or locally originated route)
func TestC17RRClientPathWithoutClusterList(t *testing.T) {
	defer func() {
		if r := recover(); r != nil {
			t.Errorf("serialising the attributes of a path without CLUSTER_LIST for a route-reflector client panics: %v", r)
		}
	}()
	p := &route.Path{Type: route.BGPPathType, BGPPath: &route.BGPPath{ASPath: &types.ASPath{},
		BGPPathA: &route.BGPPathA{NextHop: bnet.IPv4FromOctets(10, 0, 0, 1).Ptr(), Source: bnet.IPv4(0).Ptr(), LocalPref: 100}}}
	pa, err := packet.PathAttributes(p, true, true)
	if err != nil {
		t.Fatal(err)
	}
	u := &packet.BGPUpdate{PathAttributes: pa, NLRI: &packet.NLRI{Prefix: bnet.NewPfx(bnet.IPv4FromOctets(10, 0, 0, 0), 8).Ptr()}}
	if _, err := u.SerializeUpdate(&packet.EncodeOptions{Use32BitASN: true}); err != nil {
		t.Fatal(err)
	}
}
