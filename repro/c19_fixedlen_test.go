package repro

import (
	"bytes"
	"testing"

	"github.com/bio-routing/bio-rd/protocols/bgp/packet"
)

// C19: an UPDATE whose fixed-size attributes are declared longer than their value (content does not match the
// declared length) must be rejected, not decoded with the surplus octets skipped.
func TestC19FixedSizeAttributeDeclaredTooLong(t *testing.T) {
	type attr struct {
		name string
		b    []byte
	}
	origin := []byte{0x40, 1, 1, 0}
	asPath := []byte{0x40, 2, 6, 2, 1, 0, 0, 0xfd, 0xe9}
	nextHop := []byte{0x40, 3, 4, 10, 0, 0, 1}
	cases := []attr{
		{"ORIGIN declared 2 octets", []byte{0x40, 1, 2, 0, 0xff}},
		{"ORIGIN declared 3 octets", []byte{0x40, 1, 3, 0, 0xff, 0xff}},
		{"ORIGINATOR_ID declared 5 octets", []byte{0x80, 9, 5, 1, 2, 3, 4, 0xff}},
		{"AS4_AGGREGATOR declared 9 octets", []byte{0xc0, 18, 9, 0, 0, 0, 1, 10, 0, 0, 1, 0xff}},
		{"AGGREGATOR declared 7 octets", []byte{0xc0, 7, 7, 0, 1, 10, 0, 0, 1, 0xff}},
	}
	for _, tc := range cases {
		var attrs []byte
		if tc.b[1] == 1 {
			attrs = append(attrs, tc.b...)
		} else {
			attrs = append(attrs, origin...)
		}
		attrs = append(attrs, asPath...)
		attrs = append(attrs, nextHop...)
		if tc.b[1] != 1 {
			attrs = append(attrs, tc.b...)
		}
		body := []byte{0, 0, byte(len(attrs) >> 8), byte(len(attrs))}
		body = append(body, attrs...)
		body = append(body, 8, 10) // NLRI 10.0.0.0/8
		msg := bytes.Repeat([]byte{0xff}, 16)
		l := 19 + len(body)
		msg = append(msg, byte(l>>8), byte(l), 2)
		msg = append(msg, body...)
		m, err := packet.Decode(bytes.NewBuffer(msg), &packet.DecodeOptions{Use32BitASN: true})
		if err == nil {
			u := m.Body.(*packet.BGPUpdate)
			t.Errorf("%s: UPDATE accepted (NLRI %v would be installed)", tc.name, u.NLRI.Prefix)
		}
	}
	// control: the well-formed message decodes
	attrs := append(append(append([]byte{}, origin...), asPath...), nextHop...)
	body := append([]byte{0, 0, byte(len(attrs) >> 8), byte(len(attrs))}, attrs...)
	body = append(body, 8, 10)
	msg := bytes.Repeat([]byte{0xff}, 16)
	l := 19 + len(body)
	msg = append(append(msg, byte(l>>8), byte(l), 2), body...)
	if _, err := packet.Decode(bytes.NewBuffer(msg), &packet.DecodeOptions{Use32BitASN: true}); err != nil {
		t.Fatalf("control: %v", err)
	}
}
