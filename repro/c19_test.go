package repro

import (
	"bytes"
	"testing"

	"github.com/bio-routing/bio-rd/protocols/bgp/packet"
)

func c19Update(withdrawn, attrs, nlri []byte, declaredAttrLen int) []byte {
	body := []byte{byte(len(withdrawn) >> 8), byte(len(withdrawn))}
	body = append(body, withdrawn...)
	if declaredAttrLen < 0 {
		declaredAttrLen = len(attrs)
	}
	body = append(body, byte(declaredAttrLen>>8), byte(declaredAttrLen))
	body = append(body, attrs...)
	body = append(body, nlri...)
	l := 19 + len(body)
	msg := append(bytes.Repeat([]byte{0xff}, 16), byte(l>>8), byte(l), 2)
	return append(msg, body...)
}

var c19Mandatory = []byte{
	0x40, 1, 1, 0, // ORIGIN
	0x40, 2, 4, 2, 1, 0xfd, 0xe9, // AS_PATH [65001]
	0x40, 3, 4, 10, 0, 0, 1, // NEXT_HOP
}

func c19Decode(b []byte) (*packet.BGPUpdate, error) {
	m, err := packet.Decode(bytes.NewBuffer(b), &packet.DecodeOptions{})
	if err != nil {
		return nil, err
	}
	return m.Body.(*packet.BGPUpdate), nil
}

// C19: no route is installed from an UPDATE whose NLRI has a prefix length beyond 32 (IPv4).
func TestC19IPv4PrefixLength33(t *testing.T) {
	u, err := c19Decode(c19Update(nil, c19Mandatory, []byte{33, 10, 0, 0, 0, 0x80}, -1))
	if err == nil {
		t.Errorf("IPv4 NLRI with prefix length 33 accepted as %s", u.NLRI.Prefix.String())
	}
}

// C19: … whose reachable NLRI lack ORIGIN, AS_PATH or a next hop.
func TestC19NLRIWithoutMandatoryAttributes(t *testing.T) {
	if u, err := c19Decode(c19Update(nil, nil, []byte{8, 10}, -1)); err == nil {
		t.Errorf("UPDATE with NLRI %s and no attributes at all accepted", u.NLRI.Prefix.String())
	}
	med := []byte{0x80, 4, 4, 0, 0, 0, 5}
	if u, err := c19Decode(c19Update(nil, med, []byte{8, 10}, -1)); err == nil {
		t.Errorf("UPDATE with NLRI %s and only MED accepted", u.NLRI.Prefix.String())
	}
}

// C19: … whose attributes' contents do not match their declared lengths.
func TestC19AttributeLengthMismatch(t *testing.T) {
	attrs := append([]byte{}, c19Mandatory...)
	attrs = append(attrs, 0x80, 4, 5, 0, 0, 0, 5, 0) // MED declared 5 octets
	if _, err := c19Decode(c19Update(nil, attrs, []byte{8, 10}, -1)); err == nil {
		t.Errorf("MED with declared length 5 accepted")
	}
	attrs = append([]byte{}, c19Mandatory[:11]...)
	attrs = append(attrs, 0x40, 3, 5, 10, 0, 0, 1, 0) // NEXT_HOP declared 5 octets
	if _, err := c19Decode(c19Update(nil, attrs, []byte{8, 10}, -1)); err == nil {
		t.Errorf("NEXT_HOP with declared length 5 accepted")
	}
}

// C19: … whose withdrawn-routes, attribute and NLRI lengths do not add up to the message length.
func TestC19LengthsDoNotAddUp(t *testing.T) {
	// total path attribute length one octet short of the last attribute: the attribute loop overshoots
	if _, err := c19Decode(c19Update(nil, c19Mandatory, []byte{8, 10}, len(c19Mandatory)-1)); err == nil {
		t.Errorf("UPDATE whose last attribute runs past the declared total attribute length accepted")
	}
}
