package adjRIBOut_test

import (
	"testing"
	"time"

	bnet "github.com/bio-routing/bio-rd/net"
	"github.com/bio-routing/bio-rd/protocols/bgp/types"
	"github.com/bio-routing/bio-rd/route"
	"github.com/bio-routing/bio-rd/routingtable"
	"github.com/bio-routing/bio-rd/routingtable/adjRIBOut"
	"github.com/bio-routing/bio-rd/routingtable/filter"
	"github.com/bio-routing/bio-rd/routingtable/locRIB"
)

// C25: replacing the export policy of an add-path session while the Loc-RIB holds a route that must not be
// propagated to that peer (NO_ADVERTISE) must complete.
func TestC25ReplaceFilterChainWithUnpropagatedRoute(t *testing.T) {
	rib := locRIB.New("inet.0")
	sess := routingtable.SessionAttrs{RouterID: 1, LocalASN: 65000, PeerASN: 65001, PeerIP: bnet.IPv4(2).Ptr(), LocalIP: bnet.IPv4(1).Ptr(), AddPathTX: true}
	aro := adjRIBOut.New(rib, sess, filter.NewAcceptAllFilterChain())
	rib.RegisterWithOptions(aro, routingtable.ClientOptions{MaxPaths: 10})
	p := &route.Path{Type: route.BGPPathType, BGPPath: &route.BGPPath{ASPath: &types.ASPath{}, Communities: &types.Communities{types.WellKnownCommunityNoAdvertise},
		BGPPathA: &route.BGPPathA{Source: bnet.IPv4(9).Ptr(), NextHop: bnet.IPv4(9).Ptr(), EBGP: true}}}
	rib.AddPath(bnet.NewPfx(bnet.IPv4FromOctets(10, 0, 0, 0), 8).Ptr(), p)
	done := make(chan struct{})
	go func() { aro.ReplaceFilterChain(filter.NewAcceptAllFilterChain()); close(done) }()
	select {
	case <-done:
	case <-time.After(2 * time.Second):
		t.Errorf("ReplaceFilterChain never returns: RefreshRoute → checkPropagateUpdate → removePathsForPrefix locks the Adj-RIB-Out lock that ReplaceFilterChain already holds")
	}
}
