package repro

import (
	"testing"
	"time"

	bnet "github.com/bio-routing/bio-rd/net"
	"github.com/bio-routing/bio-rd/protocols/bgp/types"
	"github.com/bio-routing/bio-rd/route"
	"github.com/bio-routing/bio-rd/routingtable"
	"github.com/bio-routing/bio-rd/routingtable/adjRIBOut"
	"github.com/bio-routing/bio-rd/routingtable/filter"
	"github.com/bio-routing/bio-rd/routingtable/locRIB"
)

type c25Master struct{}

func (c25Master) UpdateNewClient(routingtable.RouteTableClient) error { return nil }

// C25: registering a client with a table that was disposed must not wedge the client manager.
func TestC25RegisterAfterDispose(t *testing.T) {
	cm := routingtable.NewClientManager(c25Master{})
	cm.Dispose()
	cm.RegisterWithOptions(routingtable.NewRTMockClient(), routingtable.ClientOptions{})
	done := make(chan struct{})
	go func() { cm.Clients(); close(done) }()
	select {
	case <-done:
	case <-time.After(2 * time.Second):
		t.Errorf("ClientManager.Clients() blocks forever after a RegisterWithOptions on a disposed manager: the lock was never released")
	}
}

// slow client: blocks inside AddPath until released, so that the Loc-RIB holds its lock
type c25Slow struct {
	routingtable.RTMockClient
	entered chan struct{}
	release chan struct{}
}

func (s *c25Slow) AddPath(pfx *bnet.Prefix, p *route.Path) error {
	select {
	case s.entered <- struct{}{}:
		<-s.release
	default:
	}
	return nil
}
func (s *c25Slow) AddPathInitialDump(pfx *bnet.Prefix, p *route.Path) error { return nil }

// C25: an export policy replacement concurrent with a route update must complete.
func TestC25PolicyReplacementVsRouteUpdate(t *testing.T) {
	for try := 0; try < 20; try++ {
		rib := locRIB.New("inet.0")
		sess := routingtable.SessionAttrs{RouterID: 1, LocalASN: 65000, PeerASN: 65001, PeerIP: bnet.IPv4(2).Ptr(), LocalIP: bnet.IPv4(1).Ptr()}
		aro := adjRIBOut.New(rib, sess, filter.NewAcceptAllFilterChain())
		slow := &c25Slow{entered: make(chan struct{}), release: make(chan struct{})}
		rib.Register(slow)
		rib.Register(aro)
		p := &route.Path{Type: route.BGPPathType, BGPPath: &route.BGPPath{ASPath: &types.ASPath{}, BGPPathA: &route.BGPPathA{Source: bnet.IPv4(9).Ptr(), NextHop: bnet.IPv4(9).Ptr(), EBGP: true}}}
		added := make(chan struct{})
		go func() { rib.AddPath(bnet.NewPfx(bnet.IPv4FromOctets(10, 0, 0, 0), 8).Ptr(), p); close(added) }()
		select {
		case <-slow.entered: // the Loc-RIB is inside AddPath, holding its lock, before it reaches the Adj-RIB-Out (or after)
		case <-added:
			continue
		}
		replaced := make(chan struct{})
		go func() { aro.ReplaceFilterChain(filter.NewDrainFilterChain()); close(replaced) }()
		time.Sleep(50 * time.Millisecond) // let ReplaceFilterChain take the Adj-RIB-Out lock and wait for the Loc-RIB
		close(slow.release)
		select {
		case <-added:
		case <-time.After(2 * time.Second):
			t.Fatalf("deadlock (try %d): Loc-RIB.AddPath holds the Loc-RIB lock and waits for the Adj-RIB-Out lock; ReplaceFilterChain holds the Adj-RIB-Out lock and waits for the Loc-RIB lock", try)
		}
		<-replaced
	}
}
