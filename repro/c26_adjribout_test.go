package adjRIBOut_test

// run with -race

import (
	"sync"
	"testing"

	bnet "github.com/bio-routing/bio-rd/net"
	"github.com/bio-routing/bio-rd/protocols/bgp/types"
	"github.com/bio-routing/bio-rd/route"
	"github.com/bio-routing/bio-rd/routingtable"
	"github.com/bio-routing/bio-rd/routingtable/adjRIBOut"
	"github.com/bio-routing/bio-rd/routingtable/filter"
	"github.com/bio-routing/bio-rd/routingtable/locRIB"
)

// C26: a route update reaching the Adj-RIB-Out concurrently with an export policy replacement.
// (The Adj-RIB-Out is driven directly so that the lock-order cycle with the Loc-RIB, a known finding of C25, is not hit.)
func TestC26AddPathVsReplaceFilterChain(t *testing.T) {
	rib := locRIB.New("inet.0")
	sess := routingtable.SessionAttrs{RouterID: 1, LocalASN: 65000, PeerASN: 65001, PeerIP: bnet.IPv4(2).Ptr(), LocalIP: bnet.IPv4(1).Ptr()}
	aro := adjRIBOut.New(rib, sess, filter.NewAcceptAllFilterChain())
	p := &route.Path{Type: route.BGPPathType, BGPPath: &route.BGPPath{ASPath: &types.ASPath{}, BGPPathA: &route.BGPPathA{Source: bnet.IPv4(9).Ptr(), NextHop: bnet.IPv4(9).Ptr(), EBGP: true}}}
	var wg sync.WaitGroup
	wg.Add(2)
	go func() {
		defer wg.Done()
		for i := 0; i < 200; i++ {
			aro.AddPath(bnet.NewPfx(bnet.IPv4FromOctets(10, 0, uint8(i), 0), 24).Ptr(), p)
		}
	}()
	go func() {
		defer wg.Done()
		for i := 0; i < 200; i++ {
			aro.ReplaceFilterChain(filter.NewAcceptAllFilterChain())
		}
	}()
	wg.Wait()
}
