package repro

import (
	"runtime"
	"testing"

	bmppkt "github.com/bio-routing/bio-rd/protocols/bmp/packet"
)

func c27NoPanic(t *testing.T, name string, msg []byte) {
	t.Helper()
	defer func() {
		if r := recover(); r != nil {
			t.Errorf("%s: decoder panicked: %v", name, r)
		}
	}()
	var before, after runtime.MemStats
	runtime.ReadMemStats(&before)
	bmppkt.Decode(msg)
	runtime.ReadMemStats(&after)
	if d := after.TotalAlloc - before.TotalAlloc; d > 1<<20 {
		t.Errorf("%s: decoding a %d byte message allocated %d bytes", name, len(msg), d)
	}
}

func c27Header(typ uint8, l uint32) []byte {
	return []byte{3, byte(l >> 24), byte(l >> 16), byte(l >> 8), byte(l), typ}
}

// C27: message length fields smaller than the fixed headers must not crash the decoder (nor make it allocate 4 GiB).
func TestC27ShortLengthFields(t *testing.T) {
	pph := make([]byte, 42)
	// route monitoring with a length field of 10 (less than common + per-peer header)
	c27NoPanic(t, "route monitoring, MsgLength=10", append(append(c27Header(0, 10), pph...), 1, 2, 3))
	// peer down, reason 1 (data follows), length field of 10
	c27NoPanic(t, "peer down, MsgLength=10", append(append(c27Header(2, 10), pph...), 1, 9, 9))
	// stats report with a count of 0xffffffff and no statistics
	c27NoPanic(t, "stats report, StatsCount=2^32-1", append(append(c27Header(1, 52), pph...), 0xff, 0xff, 0xff, 0xff))
}
