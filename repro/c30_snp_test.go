package repro

import (
	"bytes"
	"fmt"
	"testing"

	"github.com/bio-routing/bio-rd/protocols/isis/packet"
	"github.com/bio-routing/bio-rd/protocols/isis/types"
)

func c30Entries(n int) []*packet.LSPEntry {
	es := make([]*packet.LSPEntry, n)
	for i := range es {
		es[i] = &packet.LSPEntry{SequenceNumber: uint32(i + 1), RemainingLifetime: 1200, LSPID: packet.LSPID{SystemID: types.SystemID{0, 0, 0, 0, byte(i >> 8), byte(i)}}}
	}
	return es
}

func c30Try(f func()) (err error) {
	defer func() {
		if r := recover(); r != nil {
			err = fmt.Errorf("panic: %v", r)
		}
	}()
	f()
	return nil
}

// C30: every CSNP and PSNP bio-rd builds decodes back to the same content — for every number of LSP entries and every MTU.
func TestC30SNPsRoundTrip(t *testing.T) {
	src := types.SourceID{SystemID: types.SystemID{1, 2, 3, 4, 5, 6}}
	for _, tc := range []struct{ n, mtu int }{{3, 33 + 2 + 32}, {5, 33 + 2 + 32}, {16, 1492}, {20, 1492}, {100, 1492}, {200, 1492}} {
		var csnps []packet.CSNP
		if err := c30Try(func() { csnps = packet.NewCSNPs(src, c30Entries(tc.n), tc.mtu) }); err != nil {
			t.Errorf("NewCSNPs(%d entries, MTU %d): %v", tc.n, tc.mtu, err)
			continue
		}
		got := 0
		for i := range csnps {
			buf := bytes.NewBuffer(nil)
			csnps[i].Serialize(buf)
			if buf.Len() > tc.mtu {
				t.Errorf("NewCSNPs(%d entries, MTU %d): CSNP #%d is %d bytes", tc.n, tc.mtu, i, buf.Len())
			}
			d, err := packet.DecodeCSNP(buf)
			if err != nil {
				t.Errorf("NewCSNPs(%d entries, MTU %d): CSNP #%d does not decode: %v", tc.n, tc.mtu, i, err)
				continue
			}
			got += len(d.GetLSPEntries())
		}
		if got != tc.n {
			t.Errorf("NewCSNPs(%d entries, MTU %d): the CSNPs decode to %d entries", tc.n, tc.mtu, got)
		}
	}
	for _, tc := range []struct{ n, mtu int }{{3, 17 + 2 + 32}, {20, 1492}, {100, 1492}} {
		var psnps []packet.PSNP
		if err := c30Try(func() { psnps = packet.NewPSNPs(src, c30Entries(tc.n), tc.mtu) }); err != nil {
			t.Errorf("NewPSNPs(%d entries, MTU %d): %v", tc.n, tc.mtu, err)
			continue
		}
		got := 0
		for i := range psnps {
			buf := bytes.NewBuffer(nil)
			psnps[i].Serialize(buf)
			d, err := packet.DecodePSNP(buf)
			if err != nil {
				t.Errorf("NewPSNPs(%d entries, MTU %d): PSNP #%d does not decode: %v", tc.n, tc.mtu, i, err)
				continue
			}
			got += len(d.GetLSPEntries())
		}
		if got != tc.n {
			t.Errorf("NewPSNPs(%d entries, MTU %d): the PSNPs decode to %d entries", tc.n, tc.mtu, got)
		}
	}
}
