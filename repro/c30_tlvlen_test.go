package repro

import (
	"bytes"
	"testing"

	bnet "github.com/bio-routing/bio-rd/net"
	"github.com/bio-routing/bio-rd/protocols/isis/packet"
)

// C30: a hello/LSP of a router with more than 63 IPv4 interface addresses (or an over-long host name) still decodes back
// to what was put in: the TLV length is one octet, so such lists have to be spread over several TLVs.
func TestC30ManyInterfaceAddresses(t *testing.T) {
	for _, n := range []int{0, 1, 63, 64, 70, 200} {
		addrs := make([]*bnet.Prefix, n)
		for i := range addrs {
			addrs[i] = bnet.NewPfx(bnet.IPv4FromOctets(10, 0, byte(i>>8), byte(i)), 32).Ptr()
		}
		buf := bytes.NewBuffer(nil)
		for _, tlv := range packet.NewIPInterfaceAddressesTLVs(addrs) {
			tlv.Serialize(buf)
		}
		got := 0
		for buf.Len() > 0 {
			hdr := make([]byte, 2)
			buf.Read(hdr)
			if hdr[0] != packet.IPInterfaceAddressesTLVType {
				t.Fatalf("%d addresses: stream desynchronised (TLV type %d)", n, hdr[0])
			}
			got += int(hdr[1]) / 4
			buf.Next(int(hdr[1]))
		}
		if got != n {
			t.Errorf("%d addresses: the serialized TLVs carry %d", n, got)
		}
	}
}

// C30: the reachability TLVs report when they are full (the caller starts a new one) instead of wrapping their length octet.
func TestC30ReachabilityTLVsReportFull(t *testing.T) {
	tlv := packet.NewExtendedIPReachabilityTLV()
	n := 0
	for i := 0; i < 100; i++ {
		r := packet.NewExtendedIPReachability(10, 32, uint32(i))
		if !tlv.Fits(r) {
			break
		}
		tlv.AddExtendedIPReachability(r)
		n++
	}
	if n != 28 || int(tlv.Length()) != 28*9 {
		t.Errorf("extended IP reachability TLV took %d /32 prefixes, length octet %d", n, tlv.Length())
	}
}
