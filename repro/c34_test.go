package repro

import (
	"testing"

	bnet "github.com/bio-routing/bio-rd/net"
	"github.com/bio-routing/bio-rd/protocols/bgp/types"
	"github.com/bio-routing/bio-rd/route"
	"github.com/bio-routing/bio-rd/route/api"
)

// C34: CLUSTER_LIST survives the conversion to the API and back.
func TestC34ClusterListRoundTrip(t *testing.T) {
	cl := types.ClusterList{1, 2, 3}
	p := &route.Path{Type: route.BGPPathType, BGPPath: &route.BGPPath{ASPath: &types.ASPath{}, ClusterList: &cl,
		BGPPathA: &route.BGPPathA{NextHop: bnet.IPv4(1).Ptr(), Source: bnet.IPv4(2).Ptr()}}}
	r := route.NewRoute(bnet.NewPfx(bnet.IPv4FromOctets(10, 0, 0, 0), 8).Ptr(), p)
	back := route.RouteFromProtoRoute(r.ToProto(), false)
	got := back.Paths()[0].BGPPath.ClusterList
	if got == nil || len(*got) != 3 {
		t.Errorf("CLUSTER_LIST [1 2 3] is lost in the API conversion: got %v", got)
	}
}

// C34: a hidden path is never reported as visible.
func TestC34HiddenReasonEmptyASPath(t *testing.T) {
	p := &route.Path{Type: route.BGPPathType, HiddenReason: route.HiddenReasonEmptyASPath, BGPPath: &route.BGPPath{ASPath: &types.ASPath{},
		BGPPathA: &route.BGPPathA{NextHop: bnet.IPv4(1).Ptr(), Source: bnet.IPv4(2).Ptr()}}}
	if !p.IsHidden() {
		t.Fatal("setup")
	}
	if p.ToProto().HiddenReason == api.Path_HiddenReasonNone {
		t.Errorf("a path hidden because of an empty AS path is exported with HiddenReasonNone, i.e. as visible")
	}
}
