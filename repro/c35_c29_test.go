package repro

import (
	"testing"

	bnet "github.com/bio-routing/bio-rd/net"
	"github.com/bio-routing/bio-rd/route"
	"github.com/bio-routing/bio-rd/routingtable/locRIB"
	"github.com/bio-routing/bio-rd/routingtable/mergedlocrib"
	"github.com/bio-routing/bio-rd/util/dijkstra"
)

// C35: an unreachable node must be marked unreachable, not crash the computation.
func TestC35Unreachable(t *testing.T) {
	a, b, c := dijkstra.Node{Name: "A"}, dijkstra.Node{Name: "B"}, dijkstra.Node{Name: "C"}
	top := dijkstra.NewTopology([]dijkstra.Node{a, b, c}, []dijkstra.Edge{{NodeA: a, NodeB: b, Distance: 1}})
	spt := top.SPT(a)
	if spt[c].Distance != -1 || spt[b].Distance != 1 {
		t.Fatalf("unexpected %v", spt)
	}
}

// C29: a route advertised twice by the same source and withdrawn once is not advertised by anyone any more.
func TestC29RepeatedAdvertisement(t *testing.T) {
	rib := locRIB.New("x")
	m := mergedlocrib.New(rib)
	r := route.NewRoute(bnet.NewPfx(bnet.IPv4FromOctets(10, 0, 0, 0), 8).Ptr(), &route.Path{Type: route.StaticPathType, StaticPath: &route.StaticPath{NextHop: bnet.IPv4(1).Ptr()}}).ToProto()
	src := "source-1"
	m.AddRoute(src, r)
	m.AddRoute(src, r)
	m.RemoveRoute(src, r)
	if rib.Count() != 0 {
		t.Fatalf("route still present after its only source withdrew it (count=%d)", rib.Count())
	}
	m.AddRoute(src, r)
	m.AddRoute(src, r)
	m.DropAllBySrc(src)
	if rib.Count() != 0 {
		t.Fatalf("route still present after its only source was dropped (count=%d)", rib.Count())
	}
}
