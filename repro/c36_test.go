package repro

import (
	"testing"

	bgpserver "github.com/bio-routing/bio-rd/protocols/bgp/server"
	"github.com/bio-routing/bio-rd/routingtable"
)

// C36: a reload that changes only one of these settings must lead to a session with the new setting.
func TestC36SettingsThatNeedARestart(t *testing.T) {
	base := func() *bgpserver.PeerConfig {
		return &bgpserver.PeerConfig{TTL: 1, IPv4: &bgpserver.AddressFamilyConfig{}}
	}
	cases := map[string]func(c *bgpserver.PeerConfig){
		"TTL":                         func(c *bgpserver.PeerConfig) { c.TTL = 5 },
		"cluster ID":                  func(c *bgpserver.PeerConfig) { c.RouteReflectorClusterID = 7 },
		"IPv4 multiprotocol":          func(c *bgpserver.PeerConfig) { c.AdvertiseIPv4MultiProtocol = true },
		"IPv6 address family added":   func(c *bgpserver.PeerConfig) { c.IPv6 = &bgpserver.AddressFamilyConfig{} },
		"IPv4 address family removed": func(c *bgpserver.PeerConfig) { c.IPv4 = nil },
		"add-path receive":            func(c *bgpserver.PeerConfig) { c.IPv4.AddPathRecv = true },
		"add-path send":               func(c *bgpserver.PeerConfig) { c.IPv4.AddPathSend = routingtable.ClientOptions{MaxPaths: 4} },
		"extended next hop":           func(c *bgpserver.PeerConfig) { c.IPv4.NextHopExtended = true },
		"peer role turned on":         func(c *bgpserver.PeerConfig) { c.PeerRole = 2 },
	}
	for name, change := range cases {
		n := base()
		change(n)
		if !base().NeedsRestart(n) {
			t.Errorf("%s changed by a reload: NeedsRestart says no, and nothing else applies it — the session keeps the old setting", name)
		}
	}
}
