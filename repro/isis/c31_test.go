package server

// place in protocols/isis/server/ (in-package test, scratch worktree only)

import (
	"testing"
	"time"

	bbclock "github.com/benbjohnson/clock"
	"github.com/bio-routing/bio-rd/net/ethernet"
	"github.com/bio-routing/bio-rd/protocols/isis/packet"
	"github.com/bio-routing/bio-rd/protocols/isis/types"
)

// C31: a neighbor that sent one hello (adjacency still initialising) and then went silent must disappear.
func TestC31SilentNeighborInInitDisappears(t *testing.T) {
	oldClock := clock
	mc := bbclock.NewMock()
	mc.Set(time.Date(2023, 1, 23, 0, 0, 0, 0, time.UTC))
	clock = mc
	defer func() { clock = oldClock }()
	s := c33ServerForC31(t)
	nifa := &netIfa{name: "eth0", srv: s, cfg: &InterfaceConfig{Name: "eth0", Level2: &InterfaceLevelConfig{HoldingTimer: 9}}}
	nm := newNeighborManager(s, nifa, 2)
	src := ethernet.MACAddr{1, 2, 3, 4, 5, 6}
	nm.addNeighborIfNotExists(src, &packet.P2PHello{SystemID: types.SystemID{1, 1, 1, 1, 1, 1}, HoldingTimer: 9})
	if len(nm.getNeighbors()) != 1 {
		t.Fatal("setup")
	}
	for i := 0; i < 300; i++ { // five minutes without any further hello
		mc.Add(time.Second)
		time.Sleep(time.Millisecond)
	}
	time.Sleep(50 * time.Millisecond)
	if n := len(nm.getNeighbors()); n != 0 {
		t.Errorf("a neighbor that sent a single hello with a 9 s holding time is still known after 300 s of silence (state %d): it never disappears", nm.getNeighbors()[0].getState())
	}
}

func c33ServerForC31(t *testing.T) *Server {
	s, err := New([]*types.NET{{AreaID: types.AreaID{0x49, 0x00}, SystemID: types.SystemID{12, 12, 12, 13, 13, 13}}}, newMockDeviceUpdater(), 3600)
	if err != nil {
		t.Fatal(err)
	}
	return s
}
