package server

// place in protocols/isis/server/ (in-package test, scratch worktree only)

import (
	"testing"

	"github.com/bio-routing/bio-rd/net/ethernet"
	"github.com/bio-routing/bio-rd/protocols/isis/packet"
	"github.com/bio-routing/bio-rd/protocols/isis/types"
)

func c32Server(t *testing.T) (*Server, *netIfa) {
	s, err := New([]*types.NET{{AreaID: types.AreaID{0x49, 0x00}, SystemID: types.SystemID{12, 12, 12, 13, 13, 13}}}, newMockDeviceUpdater(), 3600)
	if err != nil {
		t.Fatal(err)
	}
	s.SetHostnameFunc(func() (string, error) { return "c32", nil })
	if err := s.AddInterface(&InterfaceConfig{Name: "ethA", PointToPoint: true, Level2: &InterfaceLevelConfig{HelloInterval: 10, HoldingTimer: 30, Metric: 10}}); err != nil {
		t.Fatal(err)
	}
	ifa := s.netIfaManager.getInterface("ethA")
	ifa.ethernetInterface = ethernet.NewMockEthernetInterface()
	ifa.devStatus = &mockDevice{operState: 6}
	mac := ethernet.MACAddr{0xde, 0xad, 0xbe, 0xef, 0, 1}
	nm := ifa.neighborManagerL2
	nm.neighbors[mac] = &neighbor{addr: mac, sysID: types.SystemID{0xde, 0xad, 0xbe, 0xef, 0, 1}, nm: nm, state: packet.P2PAdjStateUp, done: make(chan struct{})}
	return s, ifa
}

func c32Get(s *Server, id packet.LSPID) *packet.LSPDU {
	for _, e := range s.GetLSDB() {
		if e.GetLSPDU().LSPID == id {
			return e.GetLSPDU()
		}
	}
	return nil
}

// C32: after a copy of the own LSP with a higher sequence number arrived from the network (e.g. after a restart), the
// next own LSP carries a still higher number.
func TestC32OwnLSPOutnumbersNetworkCopy(t *testing.T) {
	s, ifa := c32Server(t)
	db := s.lsdbL2
	own := packet.LSPID{SystemID: s.systemID()}
	db.updateL2LSP()
	if l := c32Get(s, own); l == nil {
		t.Fatal("no own LSP")
	}
	stale := &packet.LSPDU{RemainingLifetime: 1200, LSPID: own, SequenceNumber: 100, TLVs: []packet.TLV{}}
	stale.UpdateLength()
	stale.SetChecksum()
	db.processLSP(ifa, stale)
	db.updateL2LSP()
	if l := c32Get(s, own); l == nil || l.SequenceNumber <= 100 {
		t.Errorf("a copy of the own LSP with sequence number 100 was received, the LSP originated afterwards has sequence number %d: every other router keeps the stale copy", l.SequenceNumber)
	}
}

// C32: a PSNP entry that acknowledges an older copy does not stop the flooding of the newer one.
func TestC32PSNPForOlderCopyKeepsSRM(t *testing.T) {
	s, ifa := c32Server(t)
	db := s.lsdbL2
	id := packet.LSPID{SystemID: types.SystemID{0, 0, 0, 0, 0, 5}}
	l := &packet.LSPDU{RemainingLifetime: 1200, LSPID: id, SequenceNumber: 7, TLVs: []packet.TLV{}}
	l.UpdateLength()
	l.SetChecksum()
	db.lsps[id] = newLSDBEntry(l)
	db.lsps[id].setSRM(ifa)
	if len(db.lsps[id].getInterfacesSRMSet()) != 1 {
		t.Fatal("setup: send flag not set")
	}
	db.processPSNP(ifa, &packet.PSNP{TLVs: []packet.TLV{packet.NewLSPEntriesTLV([]*packet.LSPEntry{{SequenceNumber: 6, RemainingLifetime: 1100, LSPID: id, LSPChecksum: 1}})}})
	if len(db.lsps[id].getInterfacesSRMSet()) == 0 {
		t.Errorf("a PSNP acknowledging sequence number 6 cleared the send flag of the copy with sequence number 7: the neighbor never gets the newer LSP")
	}
}
