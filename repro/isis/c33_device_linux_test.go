package device

// place in protocols/device/ (in-package test, scratch worktree only)

import (
	"testing"
	"time"

	"github.com/vishvananda/netlink"
)

// C33: a link that appears after start-up (a new interface index) must not wedge the device monitor.
func TestC33NewLinkAfterStart(t *testing.T) {
	srv := newWithAdapter(nil)
	o := &osAdapterLinux{srv: srv}
	done := make(chan struct{})
	go func() {
		o.processLinkUpdate(&netlink.LinkUpdate{Link: &netlink.Dummy{LinkAttrs: netlink.LinkAttrs{Index: 7, Name: "eth7", OperState: netlink.OperUp}}})
		close(done)
	}()
	select {
	case <-done:
	case <-time.After(2 * time.Second):
		t.Errorf("processLinkUpdate never returns for a new interface: it holds devicesMu and addDevice locks it again")
	}
}
