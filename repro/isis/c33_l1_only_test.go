package server

// place in protocols/isis/server/ (in-package test, scratch worktree only; needs c33_test.go for c33Server/c33Deliver)

import (
	"testing"

	"github.com/bio-routing/bio-rd/protocols/device"
)

// C33: "Any sequence of link up and link down events on active or passive IS-IS interfaces leaves the server running".
// An interface configured with level 1 only has no level-2 neighbor manager; LSP origination (run on every link event),
// the CSNP tick, the SRM flagging of a new LSP and the adjacency listing call methods on that nil manager.
func TestC33LevelOneOnlyInterface(t *testing.T) {
	up, down := uint8(device.IfOperUp), uint8(device.IfOperDown)
	s := c33Server(t)
	if err := s.AddInterface(&InterfaceConfig{Name: "eth0", PointToPoint: true, Level1: &InterfaceLevelConfig{HelloInterval: 4, HoldingTimer: 16, Metric: 10}}); err != nil {
		t.Fatal(err)
	}
	nifa := s.netIfaManager.getInterface("eth0")
	for _, st := range []uint8{up, down, up} {
		if err := c33Recover(func() {
			if e := c33Deliver(nifa, st); e != nil {
				t.Logf("event %d: %v", st, e)
			}
		}); err != nil {
			t.Fatalf("link event %d on a level-1-only interface: %v", st, err)
		}
	}
	if err := c33Recover(func() { s.lsdbL2.updateL2LSP() }); err != nil {
		t.Errorf("LSP origination: %v", err)
	}
	if err := c33Recover(s.lsdbL2.sendCSNPss); err != nil {
		t.Errorf("CSNP tick: %v", err)
	}
	if err := c33Recover(func() { s.GetAdjacencies() }); err != nil {
		t.Errorf("GetAdjacencies: %v", err)
	}
}
