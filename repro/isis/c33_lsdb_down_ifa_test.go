package server

// place in protocols/isis/server/ (in-package test, scratch worktree only)

import (
	"fmt"
	"testing"

	"github.com/bio-routing/bio-rd/protocols/device"
)

func c33Recover(f func()) (err error) {
	defer func() {
		if r := recover(); r != nil {
			err = fmt.Errorf("panic: %v", r)
		}
	}()
	f()
	return nil
}

// C33: the periodic LSDB routines (LSP flooding, PSNP, CSNP) run for every configured interface.  An active interface whose
// link is down (or never came up) has no ethernet handle; the routines must skip it instead of crashing the server.
func TestC33LSDBRoutinesWithInterfaceDown(t *testing.T) {
	up, down := uint8(device.IfOperUp), uint8(device.IfOperDown)
	for _, seq := range [][]uint8{{}, {down}, {up, down}, {up, down, up, down}} {
		s := c33Server(t)
		if err := s.AddInterface(&InterfaceConfig{Name: "eth0", PointToPoint: true, Level2: &InterfaceLevelConfig{HelloInterval: 4, HoldingTimer: 16, Metric: 10}}); err != nil {
			t.Fatal(err)
		}
		nifa := s.netIfaManager.getInterface("eth0")
		for _, st := range seq {
			if err := c33Deliver(nifa, st); err != nil {
				t.Fatalf("%v: %v", seq, err)
			}
		}
		s.lsdbL2.updateL2LSP() // what Start() does first; sets SRM on every interface
		if err := c33Recover(s.lsdbL2.sendLSPDUs); err != nil {
			t.Errorf("after %v: LSP flooding tick: %v", seq, err)
		}
		if err := c33Recover(s.lsdbL2.sendPSNPss); err != nil {
			t.Errorf("after %v: PSNP tick: %v", seq, err)
		}
		if err := c33Recover(s.lsdbL2.sendCSNPss); err != nil {
			t.Errorf("after %v: CSNP tick: %v", seq, err)
		}
	}
}
