package server

// place in protocols/isis/server/ (in-package test, scratch worktree only)

import (
	"fmt"
	"testing"
	"time"

	bbclock "github.com/benbjohnson/clock"
	bnet "github.com/bio-routing/bio-rd/net"
	"github.com/bio-routing/bio-rd/net/ethernet"
	"github.com/bio-routing/bio-rd/protocols/device"
	"github.com/bio-routing/bio-rd/protocols/isis/packet"
	"github.com/bio-routing/bio-rd/protocols/isis/types"
)

func c33Server(t *testing.T) *Server {
	s, err := New([]*types.NET{{AreaID: types.AreaID{0x49, 0x00}, SystemID: types.SystemID{12, 12, 12, 13, 13, 13}}}, newMockDeviceUpdater(), 3600)
	if err != nil {
		t.Fatal(err)
	}
	s.SetEthernetInterfaceFactory(ethernet.NewMockEthernetInterfaceFactory())
	s.SetHostnameFunc(func() (string, error) { return "c33", nil })
	return s
}

func c33Deliver(nifa *netIfa, state uint8) error {
	done := make(chan struct{})
	var perr interface{}
	go func() {
		defer close(done)
		defer func() { perr = recover() }()
		nifa.DeviceUpdate(&mockDevice{operState: state, addrs: []*bnet.Prefix{bnet.NewPfx(bnet.IPv4FromOctets(169, 254, 100, 0), 31).Ptr()}})
	}()
	select {
	case <-done:
	case <-time.After(5 * time.Second):
		return fmt.Errorf("DeviceUpdate did not return")
	}
	if perr != nil {
		return fmt.Errorf("panic: %v", perr)
	}
	return nil
}

// C33: link flaps on an active and on a passive interface
func TestC33LinkFlaps(t *testing.T) {
	oldClock := clock
	mc := bbclock.NewMock()
	mc.Set(time.Date(2023, 1, 23, 0, 0, 0, 0, time.UTC))
	clock = mc
	defer func() { clock = oldClock }()
	up, down := uint8(device.IfOperUp), uint8(device.IfOperDown)
	for _, passive := range []bool{false, true} {
		s := c33Server(t)
		if err := s.AddInterface(&InterfaceConfig{Name: "eth0", Passive: passive, PointToPoint: true, Level2: &InterfaceLevelConfig{HelloInterval: 4, HoldingTimer: 16, Metric: 10}}); err != nil {
			t.Fatal(err)
		}
		nifa := s.netIfaManager.getInterface("eth0")
		for i, st := range []uint8{up, down, up, down, up} {
			if err := c33Deliver(nifa, st); err != nil {
				t.Errorf("passive=%v: update #%d (state %d) of up,down,up,down,up: %v", passive, i+1, st, err)
				break
			}
		}
		if passive || t.Failed() {
			continue
		}
		// after the link came back the interface sends hellos again
		eth := nifa.ethernetInterface.(*ethernet.MockEthernetInterface)
		eth.DrainBuffer()
		mc.Add(4 * time.Second)
		got := make(chan struct{}, 1)
		go func() {
			for {
				_, pkt := eth.ReceiveAtRemote()
				if len(pkt) > 4 && pkt[4] == packet.P2P_HELLO {
					got <- struct{}{}
					return
				}
			}
		}()
		select {
		case <-got:
		case <-time.After(3 * time.Second):
			t.Errorf("no hello is sent after the link came back up")
		}
	}
}
