package packet

import (
	"bytes"
	"testing"

	bnet "github.com/bio-routing/bio-rd/net"
	"github.com/bio-routing/bio-rd/route"
)

// C17: "Every … UPDATE … that bio-rd serializes … decoding it with the session's negotiated options yields the same
// content".  A route redistributed into BGP (static → BGP, route.NewBGPPath) has an AS_PATH made of ONE EMPTY
// AS_SEQUENCE segment; towards an iBGP peer nothing is prepended, and serializeASPath writes that segment as
// (type 2, count 0).  bio-rd's own decoder — like any RFC 4271 speaker — rejects an AS_PATH segment of length 0
// (malformed AS_PATH): the UPDATE bio-rd emits for a redistributed route does not decode.
func TestC17RedistributedRouteUpdateDecodes(t *testing.T) {
	p := &route.Path{Type: route.BGPPathType, BGPPath: route.NewBGPPath()}
	p.BGPPath.BGPPathA.NextHop = bnet.IPv4FromOctets(10, 0, 0, 1).Ptr()
	p.BGPPath.BGPPathA.LocalPref = 100
	attrs, err := PathAttributes(p, true, false)
	if err != nil {
		t.Fatal(err)
	}
	u := &BGPUpdate{PathAttributes: attrs, NLRI: &NLRI{Prefix: bnet.NewPfx(bnet.IPv4FromOctets(192, 0, 2, 0), 24).Ptr()}}
	opt := &EncodeOptions{Use32BitASN: true}
	wire, err := u.SerializeUpdate(opt)
	if err != nil {
		t.Fatal(err)
	}
	if _, err := Decode(bytes.NewBuffer(wire), &DecodeOptions{Use32BitASN: true}); err != nil {
		t.Fatalf("the UPDATE bio-rd emits for a redistributed (locally originated) route does not decode: %v", err)
	}
}
