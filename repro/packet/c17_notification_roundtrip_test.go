package packet

import (
	"bytes"
	"testing"
)

// C17: "Every OPEN, UPDATE, NOTIFICATION and KEEPALIVE that bio-rd serializes … decoding it … yields the same content".
// bio-rd itself sends OPEN Message Error / 11 (Role Mismatch, RFC 9234; fsm_open_sent.go rejectOpen) and OPEN/UPDATE
// Message Error / 0 (Unspecific; decoder.go bodyError) — its NOTIFICATION decoder rejects exactly those sub-codes.
func TestC17EmittedNotificationsDecode(t *testing.T) {
	for _, n := range []BGPNotification{
		{ErrorCode: OpenMessageError, ErrorSubcode: RoleMismatchError},
		{ErrorCode: OpenMessageError, ErrorSubcode: 0},
		{ErrorCode: UpdateMessageError, ErrorSubcode: 0},
	} {
		wire := SerializeNotificationMsg(&n)
		msg, err := Decode(bytes.NewBuffer(wire), &DecodeOptions{})
		if err != nil {
			t.Errorf("NOTIFICATION %d/%d, which bio-rd sends, does not decode: %v", n.ErrorCode, n.ErrorSubcode, err)
			continue
		}
		got := msg.Body.(*BGPNotification)
		if got.ErrorCode != n.ErrorCode || got.ErrorSubcode != n.ErrorSubcode {
			t.Errorf("NOTIFICATION %d/%d decoded as %d/%d", n.ErrorCode, n.ErrorSubcode, got.ErrorCode, got.ErrorSubcode)
		}
	}
}
