package packet

import (
	"testing"
)

// C19: "No route is installed from an UPDATE … whose NLRI have a prefix length beyond 32 (IPv4) or 128 (IPv6)".
// An IPv6 NLRI from ::ffff:0:0/96 (e.g. ::ffff:10.0.0.0/104) is turned into an IPv4 address by deserializePrefix
// (bnet.IPFromBytes → net.IP.To4) while its IPv6 prefix length is kept: the decoder hands out the IPv4 prefix
// 10.0.0.0/104 — a prefix length beyond 32 on an IPv4 address — which the session layer installs.
func TestC19IPv4MappedIPv6NLRIKeepsItsFamily(t *testing.T) {
	b := []byte{0, 0, 0, 0, 0, 0, 0, 0, 0, 0, 0xff, 0xff, 10} // ::ffff:10.0.0.0/104 → 13 octets
	pfx, err := deserializePrefix(b, 104, AFIIPv6)
	if err != nil {
		return // rejecting it would be fine too
	}
	if pfx.Addr().IsIPv4() {
		t.Fatalf("IPv6 NLRI ::ffff:10.0.0.0/104 decoded to the IPv4 prefix %s (length %d > 32)", pfx.String(), pfx.Len())
	}
	if pfx.String() != "::ffff:10.0.0.0/104" && pfx.Len() != 104 {
		t.Fatalf("unexpected prefix %s", pfx.String())
	}
}
