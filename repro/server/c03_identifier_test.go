package server

// place in protocols/bgp/server/ (in-package test, scratch worktree only)

import (
	"testing"

	bnet "github.com/bio-routing/bio-rd/net"
	"github.com/bio-routing/bio-rd/protocols/bgp/packet"
	"github.com/bio-routing/bio-rd/routingtable/locRIB"
	"github.com/bio-routing/bio-rd/routingtable/vrf"
)

// C03: paths received from two iBGP peers, equal up to the eBGP step, must be ordered by the peers' BGP identifiers.
func TestC03ReceivedPathCarriesPeerIdentifier(t *testing.T) {
	mk := func(id uint32, addr uint32) *fsmAddressFamily {
		return &fsmAddressFamily{afi: packet.AFIIPv4, safi: packet.SAFIUnicast, rib: locRIB.New("inet.0"),
			fsm: &FSM{neighborID: id, peer: &peer{addr: bnet.IPv4(addr).Ptr(), localASN: 1, peerASN: 1, vrf: vrf.NewUntrackedVRF("v", 0)}}}
	}
	// peer A: identifier 9, address 10.0.0.1; peer B: identifier 3, address 10.0.0.2
	a := mk(9, 0x0a000001).newRoutePath(false, 0)
	b := mk(3, 0x0a000002).newRoutePath(false, 0)
	for _, p := range []*fsmAddressFamily{} {
		_ = p
	}
	a.BGPPath.BGPPathA.NextHop, b.BGPPath.BGPPathA.NextHop = bnet.IPv4(1).Ptr(), bnet.IPv4(1).Ptr()
	if a.BGPPath.BGPPathA.BGPIdentifier != 9 || b.BGPPath.BGPPathA.BGPIdentifier != 3 {
		t.Errorf("received paths do not carry the peers' BGP identifiers: %d, %d", a.BGPPath.BGPPathA.BGPIdentifier, b.BGPPath.BGPPathA.BGPIdentifier)
	}
	if b.Select(a) != 1 {
		t.Errorf("path from the peer with the lower BGP identifier (3) must win over identifier 9; Select = %d (decided by peer address instead)", b.Select(a))
	}
}
