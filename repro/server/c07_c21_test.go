package server

// place in protocols/bgp/server/ (in-package test, scratch worktree only)

import (
	"bytes"
	"testing"

	bnet "github.com/bio-routing/bio-rd/net"
	"github.com/bio-routing/bio-rd/protocols/bgp/packet"
	"github.com/bio-routing/bio-rd/protocols/bgp/types"
	"github.com/bio-routing/bio-rd/route"
	"github.com/bio-routing/bio-rd/routingtable"
	"github.com/bio-routing/bio-rd/routingtable/filter"
	"github.com/bio-routing/bio-rd/routingtable/locRIB"
	"github.com/bio-routing/bio-rd/routingtable/vrf"

	biotesting "github.com/bio-routing/bio-rd/testing"
)

func c07FSM() (*FSM, *biotesting.MockConn, *locRIB.LocRIB) {
	con := biotesting.NewMockConn()
	rib := locRIB.New("inet.0")
	fsm := &FSM{
		peer: &peer{routerID: 100, localASN: 65000, peerASN: 65001, addr: bnet.IPv4(7).Ptr(), adjRIBInFactory: adjRIBInFactory{}, vrf: vrf.NewUntrackedVRF("v", 0)},
		con:  con,
	}
	fsm.ipv4Unicast = &fsmAddressFamily{afi: packet.AFIIPv4, safi: packet.SAFIUnicast, rib: rib, fsm: fsm,
		importFilterChain: filter.NewAcceptAllFilterChain(), exportFilterChain: filter.NewAcceptAllFilterChain(),
		addPathTX: routingtable.ClientOptions{BestOnly: true}}
	return fsm, con, rib
}

// C07: a malformed message in Established removes every route learned over the session.
// C21: … and is answered with a NOTIFICATION carrying the RFC 4271 §6 code before the connection is closed.
func TestC07C21MalformedMessageInEstablished(t *testing.T) {
	fsm, con, rib := c07FSM()
	s := newEstablishedState(fsm)
	s.init()
	p := &route.Path{Type: route.BGPPathType, BGPPath: &route.BGPPath{ASPath: &types.ASPath{{Type: types.ASSequence, ASNs: []uint32{65001}}}, ASPathLen: 1,
		BGPPathA: &route.BGPPathA{EBGP: true, Source: bnet.IPv4(7).Ptr(), NextHop: bnet.IPv4(7).Ptr()}}}
	fsm.ipv4Unicast.adjRIBIn.AddPath(bnet.NewPfx(bnet.IPv4FromOctets(10, 0, 0, 0), 8).Ptr(), p)
	if rib.Count() != 1 {
		t.Fatalf("setup: %d", rib.Count())
	}
	// header with a bad marker (connection not synchronised)
	bad := append(bytes.Repeat([]byte{0xfe}, 16), 0, 19, 4)
	next, _ := s.msgReceived(bad, fsm.decodeOptions(), false, 0)
	if _, ok := next.(*idleState); !ok {
		t.Fatalf("expected idle, got %T", next)
	}
	if rib.Count() != 0 {
		t.Errorf("C07: session left Established after a malformed message but its route is still in the Loc-RIB (count=%d)", rib.Count())
	}
	if fsm.ribsInitialized {
		t.Errorf("C07: ribsInitialized still set: a re-established session would reuse the old Adj-RIBs")
	}
	want := packet.SerializeNotificationMsg(&packet.BGPNotification{ErrorCode: packet.MessageHeaderError, ErrorSubcode: packet.ConnectionNotSync})
	if !bytes.Contains(con.Buf.Bytes(), want) {
		t.Errorf("C21: no NOTIFICATION(Message Header Error / Connection Not Synchronized) was sent before closing; wrote % x", con.Buf.Bytes())
	}
	if !con.Closed {
		t.Errorf("connection not closed")
	}
}

// C21: same in OpenSent and OpenConfirm.
func TestC21NotificationOnDecodeErrorOpenStates(t *testing.T) {
	bad := append(bytes.Repeat([]byte{0xff}, 16), 0, 19, 9) // bad message type
	want := packet.SerializeNotificationMsg(&packet.BGPNotification{ErrorCode: packet.MessageHeaderError, ErrorSubcode: packet.BadMessageType})
	fsm, con, _ := c07FSM()
	newOpenSentState(fsm).msgReceived(bad, fsm.decodeOptions())
	if !bytes.Contains(con.Buf.Bytes(), want) {
		t.Errorf("OpenSent: no NOTIFICATION(Bad Message Type) sent; wrote % x", con.Buf.Bytes())
	}
	fsm, con, _ = c07FSM()
	newOpenConfirmState(fsm).msgReceived(bad, fsm.decodeOptions())
	if !bytes.Contains(con.Buf.Bytes(), want) {
		t.Errorf("OpenConfirm: no NOTIFICATION(Bad Message Type) sent; wrote % x", con.Buf.Bytes())
	}
}

// C21: a header length below 19 or above 4096 must not crash the speaker.
func TestC21FramingLength(t *testing.T) {
	for _, l := range []int{0, 18, 4097, 65535} {
		con := biotesting.NewMockConn()
		hdr := append(bytes.Repeat([]byte{0xff}, 16), byte(l>>8), byte(l), 4)
		con.Buf.Write(hdr)
		con.Buf.Write(make([]byte, 70000))
		func() {
			defer func() {
				if r := recover(); r != nil {
					t.Errorf("recvMsg panicked for header length %d: %v", l, r)
				}
			}()
			msg, err := recvMsg(con)
			if err == nil {
				if _, derr := packet.Decode(bytes.NewBuffer(msg), &packet.DecodeOptions{}); derr == nil {
					t.Errorf("length %d accepted", l)
				}
			}
		}()
	}
}
