package server

// place in protocols/bgp/server/ (in-package test, scratch worktree only)

import (
	"bytes"
	"testing"

	bnet "github.com/bio-routing/bio-rd/net"
	"github.com/bio-routing/bio-rd/protocols/bgp/packet"
	"github.com/bio-routing/bio-rd/protocols/bgp/types"
	"github.com/bio-routing/bio-rd/route"
)

// C10: a route withdrawn while its announcement is still queued must not be announced afterwards.
func TestC10WithdrawWhileAnnouncementQueued(t *testing.T) {
	fsm, con, _ := c07FSM()
	s := newEstablishedState(fsm)
	s.init()
	fsm.ipv4Unicast.updateSender.Destroy() // stop the ticker goroutine: we flush by hand
	u := newUpdateSender(fsm.ipv4Unicast)
	pfx := bnet.NewPfx(bnet.IPv4FromOctets(10, 0, 0, 0), 8).Ptr()
	p := &route.Path{Type: route.BGPPathType, BGPPath: &route.BGPPath{ASPath: &types.ASPath{{Type: types.ASSequence, ASNs: []uint32{65000}}}, ASPathLen: 1,
		BGPPathA: &route.BGPPathA{Source: bnet.IPv4(9).Ptr(), NextHop: bnet.IPv4(7).Ptr()}}}
	u.AddPath(pfx, p)    // queued until the next tick
	u.RemovePath(pfx, p) // withdrawal is written at once
	u.toSendMu.Lock()
	u._flush() // the tick
	u.toSendMu.Unlock()
	// replay what the peer received
	have := false
	b := con.Buf.Bytes()
	for len(b) >= 19 {
		l := int(b[16])<<8 | int(b[17])
		if l < 19 || l > len(b) {
			break
		}
		msg, err := packet.Decode(bytes.NewBuffer(b[:l]), &packet.DecodeOptions{Use32BitASN: false})
		b = b[l:]
		if err != nil || msg.Header.Type != packet.UpdateMsg {
			continue
		}
		upd := msg.Body.(*packet.BGPUpdate)
		for w := upd.WithdrawnRoutes; w != nil; w = w.Next {
			if w.Prefix.Equal(pfx) {
				have = false
			}
		}
		for n := upd.NLRI; n != nil; n = n.Next {
			if n.Prefix.Equal(pfx) {
				have = true
			}
		}
	}
	if have {
		t.Errorf("peer's view holds 10.0.0.0/8 although it was withdrawn (announcement sent after its withdrawal)")
	}
}
