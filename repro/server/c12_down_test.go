package server

// place in protocols/bgp/server/ (in-package test, scratch worktree only); needs c07FSM from c07_c21_test.go

import (
	"testing"

	"github.com/bio-routing/bio-rd/routingtable/filter"
)

// C12/C36: replacing the policies of a peer whose session is not established (the usual state during a reload of a
// flapping or not yet connected neighbor) must not crash, and the session must come up with the new policies.
func TestC12ReplacePolicyWhileSessionIsDown(t *testing.T) {
	fsm, _, _ := c07FSM()
	p := fsm.peer
	p.fsms = []*FSM{fsm}
	defer func() {
		if r := recover(); r != nil {
			t.Fatalf("replacing the filter chains of a peer whose session is down panics: %v", r)
		}
	}()
	p.replaceImportFilterChain(filter.NewDrainFilterChain())
	p.replaceExportFilterChain(filter.NewDrainFilterChain())
	newEstablishedState(fsm).init()
	if !fsm.ipv4Unicast.importFilterChain.Equal(filter.NewDrainFilterChain()) {
		t.Errorf("the session came up with the old import policy")
	}
}

// C36: a session that starts on a new FSM after the reload (incoming connection of a passive peer) uses the new policies.
func TestC36NewFSMAfterPolicyReplacement(t *testing.T) {
	fsm, _, _ := c07FSM()
	p := fsm.peer
	p.ipv4 = &peerAddressFamily{rib: fsm.ipv4Unicast.rib, importFilterChain: filter.NewAcceptAllFilterChain(), exportFilterChain: filter.NewAcceptAllFilterChain()}
	p.fsms = []*FSM{fsm}
	p.replaceImportFilterChain(filter.NewDrainFilterChain())
	p.replaceExportFilterChain(filter.NewDrainFilterChain())
	n := NewActiveFSM(p)
	if !n.ipv4Unicast.importFilterChain.Equal(filter.NewDrainFilterChain()) || !n.ipv4Unicast.exportFilterChain.Equal(filter.NewDrainFilterChain()) {
		t.Errorf("an FSM created after the reload (next incoming connection) still has the old policies")
	}
}
