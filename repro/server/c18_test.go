package server

// place in protocols/bgp/server/ (in-package test, scratch worktree only); needs c07FSM from c07_c21_test.go

import (
	"bytes"
	"testing"

	bnet "github.com/bio-routing/bio-rd/net"
	"github.com/bio-routing/bio-rd/protocols/bgp/packet"
	"github.com/bio-routing/bio-rd/protocols/bgp/types"
	"github.com/bio-routing/bio-rd/route"
)

func c18Run(t *testing.T, p *route.Path, n int, ibgp bool) {
	fsm, con, _ := c07FSM()
	fsm.supports4OctetASN = true
	if ibgp {
		fsm.peer.peerASN = fsm.peer.localASN
	}
	s := newEstablishedState(fsm)
	s.init()
	fsm.ipv4Unicast.updateSender.Destroy()
	u := newUpdateSender(fsm.ipv4Unicast)
	want := map[string]bool{}
	for i := 0; i < n; i++ {
		pfx := bnet.NewPfx(bnet.IPv4FromOctets(10, uint8(i>>8), uint8(i), 0), 24).Ptr()
		want[pfx.String()] = true
		u.AddPath(pfx, p)
	}
	u.toSendMu.Lock()
	u._flush()
	u.toSendMu.Unlock()
	got := map[string]bool{}
	b := con.Buf.Bytes()
	msgs := 0
	for len(b) >= 19 {
		l := int(b[16])<<8 | int(b[17])
		if l < 19 || l > len(b) {
			t.Fatalf("framing lost at message %d (length %d)", msgs, l)
		}
		if l > 4096 {
			t.Errorf("message %d has %d octets", msgs, l)
		}
		msg, err := packet.Decode(bytes.NewBuffer(b[:l]), &packet.DecodeOptions{Use32BitASN: true})
		b = b[l:]
		msgs++
		if err != nil {
			t.Errorf("message %d does not decode: %v", msgs, err)
			continue
		}
		if msg.Header.Type != packet.UpdateMsg {
			continue
		}
		for x := msg.Body.(*packet.BGPUpdate).NLRI; x != nil; x = x.Next {
			got[x.Prefix.String()] = true
		}
	}
	if len(got) != len(want) {
		t.Errorf("%d prefixes queued, %d announced in %d messages: %d prefixes silently lost", len(want), len(got), msgs, len(want)-len(got))
	}
}

// C18: iBGP path with MED, ATOMIC_AGGREGATE, AGGREGATOR and an AS path of several segments
func TestC18EstimateTooSmall(t *testing.T) {
	asp := types.ASPath{}
	for i := 0; i < 8; i++ {
		tp := uint8(types.ASSequence)
		if i%2 == 1 {
			tp = types.ASSet
		}
		asp = append(asp, types.ASPathSegment{Type: tp, ASNs: []uint32{uint32(65000 + i)}})
	}
	p := &route.Path{Type: route.BGPPathType, BGPPath: &route.BGPPath{ASPath: &asp, ASPathLen: asp.Length(),
		BGPPathA: &route.BGPPathA{Source: bnet.IPv4(9).Ptr(), NextHop: bnet.IPv4(7).Ptr(), MED: 5, LocalPref: 100, AtomicAggregate: true, Aggregator: &types.Aggregator{ASN: 65000, Address: 1}}}}
	c18Run(t, p, 3000, true)
}

// C18: plain eBGP path, enough prefixes for several messages
func TestC18PlainPath(t *testing.T) {
	asp := types.ASPath{{Type: types.ASSequence, ASNs: []uint32{65000}}}
	p := &route.Path{Type: route.BGPPathType, BGPPath: &route.BGPPath{ASPath: &asp, ASPathLen: 1,
		BGPPathA: &route.BGPPathA{Source: bnet.IPv4(9).Ptr(), NextHop: bnet.IPv4(7).Ptr()}}}
	c18Run(t, p, 5000, false)
}

// C18: estimate exact (21 one-ASN segments on an eBGP path): the first prefix of every message after the first was not charged
func TestC18FirstPrefixAfterFlushUncharged(t *testing.T) {
	asp := types.ASPath{}
	for i := 0; i < 21; i++ {
		tp := uint8(types.ASSequence)
		if i%2 == 1 {
			tp = types.ASSet
		}
		asp = append(asp, types.ASPathSegment{Type: tp, ASNs: []uint32{uint32(65000 + i)}})
	}
	p := &route.Path{Type: route.BGPPathType, BGPPath: &route.BGPPath{ASPath: &asp, ASPathLen: asp.Length(),
		BGPPathA: &route.BGPPathA{Source: bnet.IPv4(9).Ptr(), NextHop: bnet.IPv4(7).Ptr()}}}
	c18Run(t, p, 3000, false)
}
