package server

// place in protocols/bgp/server/ (in-package test, scratch worktree only)

import (
	"bytes"
	"testing"

	"github.com/bio-routing/bio-rd/protocols/bgp/packet"
	biotesting "github.com/bio-routing/bio-rd/testing"
)

// C19: an UPDATE whose lengths do not add up must not install anything — in particular not a route made of the
// zero padding behind the message in the receive buffer.
func TestC19LengthsDoNotAddUpThroughFraming(t *testing.T) {
	attrs := []byte{0x40, 1, 1, 0, 0x40, 2, 4, 2, 1, 0xfd, 0xe9, 0x40, 3, 4, 10, 0, 0, 1}
	body := []byte{0, 0, 0, byte(len(attrs) - 1)} // total path attribute length one octet short
	body = append(body, attrs...)
	body = append(body, 8, 10) // NLRI 10.0.0.0/8
	l := 19 + len(body)
	msg := append(bytes.Repeat([]byte{0xff}, 16), byte(l>>8), byte(l), 2)
	msg = append(msg, body...)
	con := biotesting.NewMockConn()
	con.Buf.Write(msg)
	raw, err := recvMsg(con)
	if err != nil {
		t.Fatal(err)
	}
	if len(raw) != l {
		t.Errorf("recvMsg returned %d bytes for a %d byte message (the rest of the receive buffer is handed to the decoder)", len(raw), l)
	}
	m, err := packet.Decode(bytes.NewBuffer(raw), &packet.DecodeOptions{})
	if err == nil {
		u := m.Body.(*packet.BGPUpdate)
		s := ""
		for n := u.NLRI; n != nil; n = n.Next {
			s += n.Prefix.String() + " "
		}
		t.Errorf("UPDATE whose attribute length does not add up was accepted; NLRI: %s", s)
	}
}
