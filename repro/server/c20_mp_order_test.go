package server

import (
	"testing"

	bnet "github.com/bio-routing/bio-rd/net"
	"github.com/bio-routing/bio-rd/protocols/bgp/packet"
)

// C20: "… installs, for each announced NLRI …, and removes, for each withdrawn NLRI, … in IPv4 and multiprotocol
// encodings alike."  An UPDATE that names one prefix both as withdrawn and as announced ends with the prefix
// installed (RFC 4271 §4.3: the withdrawal is applied first / ignored).  The classic IPv4 path applies the withdrawn
// routes before the NLRI; the multiprotocol path applies MP_REACH_NLRI first and MP_UNREACH_NLRI afterwards, so the
// same message leaves the prefix REMOVED.
func TestC20MultiProtocolWithdrawAppliedBeforeAnnounce(t *testing.T) {
	for _, mp := range []bool{false, true} {
		fsm, _, _ := c07FSM()
		f := fsm.ipv4Unicast
		f.init()
		attrs := c20Attrs()
		var u *packet.BGPUpdate
		if mp {
			f.multiProtocol = true
			reach := packet.MultiProtocolReachNLRI{AFI: packet.AFIIPv4, SAFI: packet.SAFIUnicast, NextHop: bnet.IPv4(7).Ptr(), NLRI: &packet.NLRI{Prefix: pfx4(10)}}
			unreach := packet.MultiProtocolUnreachNLRI{AFI: packet.AFIIPv4, SAFI: packet.SAFIUnicast, NLRI: &packet.NLRI{Prefix: pfx4(10)}}
			u = &packet.BGPUpdate{PathAttributes: &packet.PathAttribute{TypeCode: packet.MultiProtocolUnreachNLRIAttr, Value: unreach,
				Next: &packet.PathAttribute{TypeCode: packet.MultiProtocolReachNLRIAttr, Value: reach, Next: attrs}}}
		} else {
			u = &packet.BGPUpdate{PathAttributes: attrs, WithdrawnRoutes: &packet.NLRI{Prefix: pfx4(10)}, NLRI: &packet.NLRI{Prefix: pfx4(10)}}
		}
		f.processUpdate(u, false, 0)
		if n := f.adjRIBIn.RouteCount(); n != 1 {
			t.Errorf("multiprotocol=%v: an UPDATE withdrawing and announcing 10.0.0.0/8 left %d routes in the Adj-RIB-In, want the announced one", mp, n)
		}
	}
}
