package server

// place in protocols/bgp/server/ (in-package test, scratch worktree only)

import (
	"testing"

	bnet "github.com/bio-routing/bio-rd/net"
	"github.com/bio-routing/bio-rd/protocols/bgp/packet"
	"github.com/bio-routing/bio-rd/protocols/bgp/types"
)

func c20Family(afi uint16) *fsmAddressFamily {
	fsm, _, _ := c07FSM()
	f := fsm.ipv4Unicast
	f.afi = afi
	f.addPathRX = true
	f.init()
	return f
}

func c20Attrs() *packet.PathAttribute {
	asp := &types.ASPath{{Type: types.ASSequence, ASNs: []uint32{65001}}}
	return &packet.PathAttribute{TypeCode: packet.OriginAttr, Value: uint8(0), Next: &packet.PathAttribute{TypeCode: packet.ASPathAttr, Value: asp,
		Next: &packet.PathAttribute{TypeCode: packet.NextHopAttr, Value: bnet.IPv4(7).Ptr()}}}
}

func pfx4(a byte) *bnet.Prefix { return bnet.NewPfx(bnet.IPv4FromOctets(a, 0, 0, 0), 8).Ptr() }

// C20: each announced NLRI is installed with its OWN path identifier (IPv4 encoding).
func TestC20IPv4PerNLRIIdentifier(t *testing.T) {
	f := c20Family(packet.AFIIPv4)
	u := &packet.BGPUpdate{PathAttributes: c20Attrs(), NLRI: &packet.NLRI{PathIdentifier: 1, Prefix: pfx4(10), Next: &packet.NLRI{PathIdentifier: 2, Prefix: pfx4(11)}}}
	f.processUpdate(u, false, 0)
	for _, r := range f.adjRIBIn.Dump() {
		want := uint32(1)
		if r.Prefix().Equal(pfx4(11)) {
			want = 2
		}
		if got := r.Paths()[0].BGPPath.PathIdentifier; got != want {
			t.Errorf("%s installed with path identifier %d, the NLRI carried %d", r.Prefix().String(), got, want)
		}
	}
}

// C20: multiprotocol encoding: own identifier per NLRI, one path object per NLRI, and no crash without NLRI.
func TestC20MultiProtocol(t *testing.T) {
	f := c20Family(packet.AFIIPv4)
	f.multiProtocol = true
	reach := packet.MultiProtocolReachNLRI{AFI: packet.AFIIPv4, SAFI: packet.SAFIUnicast, NextHop: bnet.IPv4(7).Ptr(),
		NLRI: &packet.NLRI{PathIdentifier: 1, Prefix: pfx4(10), Next: &packet.NLRI{PathIdentifier: 2, Prefix: pfx4(11)}}}
	attrs := c20Attrs()
	u := &packet.BGPUpdate{PathAttributes: &packet.PathAttribute{TypeCode: packet.MultiProtocolReachNLRIAttr, Value: reach, Next: attrs}}
	f.processUpdate(u, false, 0)
	var objs []interface{}
	for _, r := range f.adjRIBIn.Dump() {
		want := uint32(1)
		if r.Prefix().Equal(pfx4(11)) {
			want = 2
		}
		p := r.Paths()[0]
		if p.BGPPath.PathIdentifier != want {
			t.Errorf("MP: %s installed with path identifier %d, the NLRI carried %d", r.Prefix().String(), p.BGPPath.PathIdentifier, want)
		}
		objs = append(objs, p)
	}
	if len(objs) == 2 && objs[0] == objs[1] {
		t.Errorf("MP: both prefixes share ONE path object in the Adj-RIB-In (a later change to one changes the other)")
	}
	// withdraw only (10/8, id 1) and (11/8, id 2) in one MP_UNREACH
	unreach := packet.MultiProtocolUnreachNLRI{AFI: packet.AFIIPv4, SAFI: packet.SAFIUnicast,
		NLRI: &packet.NLRI{PathIdentifier: 1, Prefix: pfx4(10), Next: &packet.NLRI{PathIdentifier: 2, Prefix: pfx4(11)}}}
	f.processUpdate(&packet.BGPUpdate{PathAttributes: &packet.PathAttribute{TypeCode: packet.MultiProtocolUnreachNLRIAttr, Value: unreach}}, false, 0)
	if n := f.adjRIBIn.RouteCount(); n != 0 {
		t.Errorf("MP withdraw of (10/8,id1),(11/8,id2): %d route(s) left (every withdrawal used the first NLRI's identifier)", n)
	}
	// MP_REACH that only carries a next hop (no NLRI) must not crash
	func() {
		defer func() {
			if r := recover(); r != nil {
				t.Errorf("MP_REACH_NLRI without NLRI crashed the speaker: %v", r)
			}
		}()
		empty := packet.MultiProtocolReachNLRI{AFI: packet.AFIIPv4, SAFI: packet.SAFIUnicast, NextHop: bnet.IPv4(7).Ptr()}
		f.processUpdate(&packet.BGPUpdate{PathAttributes: &packet.PathAttribute{TypeCode: packet.MultiProtocolReachNLRIAttr, Value: empty, Next: c20Attrs()}}, false, 0)
	}()
}
