package server

// place in protocols/bgp/server/ (in-package test, scratch worktree only)

import (
	"bytes"
	"testing"
)

// C21: an UPDATE carrying AS4_AGGREGATOR (type 18) with the transitive flag must not crash the speaker.
func TestC21AS4AggregatorDoesNotCrash(t *testing.T) {
	fsm, _, _ := c07FSM()
	s := newEstablishedState(fsm)
	s.init()
	attrs := []byte{
		0x40, 1, 1, 0, // ORIGIN IGP
		0x40, 2, 4, 2, 1, 0xfd, 0xe9, // AS_PATH seq [65001] (2-octet)
		0x40, 3, 4, 10, 0, 0, 1, // NEXT_HOP
		0xc0, 18, 8, 0, 0, 0xfd, 0xe9, 10, 0, 0, 9, // AS4_AGGREGATOR, optional transitive
	}
	body := []byte{0, 0, 0, byte(len(attrs))}
	body = append(body, attrs...)
	body = append(body, 8, 10) // NLRI 10.0.0.0/8
	l := 19 + len(body)
	msg := append(bytes.Repeat([]byte{0xff}, 16), byte(l>>8), byte(l), 2)
	msg = append(msg, body...)
	defer func() {
		if r := recover(); r != nil {
			t.Fatalf("UPDATE with a transitive AS4_AGGREGATOR attribute crashed the speaker: %v", r)
		}
	}()
	s.msgReceived(msg, fsm.decodeOptions(), false, 0)
}
