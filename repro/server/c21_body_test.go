package server

// place in protocols/bgp/server/ (in-package test, scratch worktree only)

import (
	"bytes"
	"testing"

	"github.com/bio-routing/bio-rd/protocols/bgp/packet"
)

// C21: a malformed UPDATE body (withdrawn-routes length pointing past the end) is answered with a NOTIFICATION
// of class UPDATE Message Error before the connection is closed.
func TestC21MalformedUpdateBodyGetsNotification(t *testing.T) {
	fsm, con, _ := c07FSM()
	s := newEstablishedState(fsm)
	s.init()
	msg := append(bytes.Repeat([]byte{0xff}, 16), 0, 23, 2, 0x00, 0x40, 0, 0) // UPDATE, withdrawn routes length 64 but body ends
	next, _ := s.msgReceived(msg, fsm.decodeOptions(), false, 0)
	if _, ok := next.(*idleState); !ok {
		t.Fatalf("expected idle, got %T", next)
	}
	b := con.Buf.Bytes()
	found := false
	for i := 0; i+21 <= len(b); i++ {
		if bytes.Equal(b[i:i+16], bytes.Repeat([]byte{0xff}, 16)) && b[i+18] == packet.NotificationMsg && b[i+19] == packet.UpdateMessageError {
			found = true
		}
	}
	if !found {
		t.Errorf("no NOTIFICATION(UPDATE Message Error) sent for a malformed UPDATE body; wrote % x", b)
	}
}
