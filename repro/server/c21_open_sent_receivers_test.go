package server

import (
	"net"
	"testing"
	"time"

	"github.com/bio-routing/bio-rd/protocols/bgp/packet"
)

// C21 ("no byte stream … wedges the daemon"; quantified over valid conversations delivered to a session in OpenSent) and
// C23 (OpenSent + BGPOpen → OpenConfirm): openSentState.run() starts a message receiver goroutine on EVERY entry, and the
// once-a-second hold timer check re-enters run() (checkHoldtimer returns a new OpenSent state).  On an FSM whose previous
// session negotiated a hold time (fsm.holdTime stays set), OpenSent lives longer than a second, so several receivers read
// the same connection: an OPEN that arrives after that is split between them (one takes the header, another the
// body as "its" header) and is never delivered — the session sits in OpenSent until the hold timer expires.
func TestC21OpenAfterOneSecondInOpenSentIsDelivered(t *testing.T) {
	fsm, _, _ := c07FSM()
	local, remote := net.Pipe()
	defer remote.Close()
	fsm.con = local
	fsm.msgRecvCh = make(chan []byte)
	fsm.msgRecvFailCh = make(chan error)
	fsm.eventCh = make(chan int)
	fsm.peer.holdTime = 90 * time.Second
	fsm.holdTime = 90 * time.Second // as left by the previous session of this FSM
	fsm.lastUpdateOrKeepalive = time.Now()

	type res struct {
		st     state
		reason string
	}
	out := make(chan res, 1)
	go func() {
		var s state = newOpenSentState(fsm)
		for {
			next, reason := s.run()
			if _, same := next.(*openSentState); !same {
				out <- res{next, reason}
				return
			}
			s = next
		}
	}()

	// the peer's OPEN arrives 2.5 s after we entered OpenSent, in one write
	time.Sleep(2500 * time.Millisecond)
	open := packet.SerializeOpenMsg(&packet.BGPOpen{Version: 4, ASN: 65001, HoldTime: 90, BGPIdentifier: 5})
	go func() {
		remote.SetWriteDeadline(time.Now().Add(3 * time.Second))
		remote.Write(open)
		// drain what we send back (KEEPALIVE)
		buf := make([]byte, 4096)
		for {
			remote.SetReadDeadline(time.Now().Add(5 * time.Second))
			if _, err := remote.Read(buf); err != nil {
				return
			}
		}
	}()

	select {
	case r := <-out:
		if _, ok := r.st.(*openConfirmState); !ok {
			t.Fatalf("OPEN received in OpenSent led to %T (%q), want OpenConfirm", r.st, r.reason)
		}
	case <-time.After(6 * time.Second):
		t.Fatalf("a valid OPEN written 2.5 s after entering OpenSent was never delivered to the state machine (several receivers read the same connection)")
	}
}
