package server

// place in protocols/bgp/server/ (in-package test, scratch worktree only)

import (
	"bytes"
	"testing"

	"github.com/bio-routing/bio-rd/protocols/bgp/packet"
)

// C22/C23: an OPEN that is rejected (bad peer AS, bad identifier, role mismatch) is answered with an OPEN error
// NOTIFICATION and the connection is closed when the session returns to Idle.
func TestC22RejectedOpenClosesConnection(t *testing.T) {
	// bad peer AS
	fsm, con, _ := c07FSM()
	s := newOpenSentState(fsm)
	next, _ := s.handleOpenMessage(&packet.BGPOpen{Version: 4, ASN: 64999, HoldTime: 90, BGPIdentifier: 5})
	if _, ok := next.(*idleState); !ok {
		t.Fatalf("bad peer AS: expected idle, got %T", next)
	}
	want := packet.SerializeNotificationMsg(&packet.BGPNotification{ErrorCode: packet.OpenMessageError, ErrorSubcode: packet.BadPeerAS})
	if !bytes.Contains(con.Buf.Bytes(), want) {
		t.Errorf("bad peer AS: no NOTIFICATION(OPEN error/Bad Peer AS)")
	}
	if !con.Closed {
		t.Errorf("bad peer AS: returned to Idle but the connection was not closed")
	}
	// bad identifier on iBGP
	fsm, con, _ = c07FSM()
	fsm.peer.peerASN = fsm.peer.localASN
	s = newOpenSentState(fsm)
	next, _ = s.openMsgReceived(&packet.BGPOpen{Version: 4, ASN: uint16(fsm.peer.localASN), HoldTime: 90, BGPIdentifier: fsm.peer.routerID})
	if _, ok := next.(*idleState); !ok {
		t.Fatalf("bad identifier: expected idle, got %T", next)
	}
	if !con.Closed {
		t.Errorf("bad identifier: returned to Idle but the connection was not closed")
	}
}

// C27: a BMP peer-up whose received OPEN disagrees with the per-peer header must not crash the receiver.
func TestC27PeerUpOpenDisagreesWithHeader(t *testing.T) {
	fsm, _, _ := c07FSM()
	fsm.isBMP = true
	fsm.con = nil
	defer func() {
		if r := recover(); r != nil {
			t.Errorf("BMP pseudo session crashed on an OPEN whose AS disagrees with the per-peer header: %v", r)
		}
	}()
	newOpenSentState(fsm).openMsgReceived(&packet.BGPOpen{Version: 4, ASN: 64999, HoldTime: 90, BGPIdentifier: 5})
}
