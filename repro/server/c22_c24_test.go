package server

// place in protocols/bgp/server/ (in-package test, scratch worktree only)

import (
	"bytes"
	"testing"

	bnet "github.com/bio-routing/bio-rd/net"
	"github.com/bio-routing/bio-rd/protocols/bgp/packet"
	"github.com/bio-routing/bio-rd/routingtable/vrf"
)

// C22: hold times 1 and 2 are unacceptable (RFC 4271 §4.2 / §6.2).
func TestC22UnacceptableHoldTime(t *testing.T) {
	for _, ht := range []uint16{1, 2} {
		open := packet.SerializeOpenMsg(&packet.BGPOpen{Version: 4, ASN: 65001, HoldTime: ht, BGPIdentifier: 5})
		_, err := packet.Decode(bytes.NewBuffer(open), &packet.DecodeOptions{})
		if err == nil {
			t.Errorf("OPEN with hold time %d accepted", ht)
		}
	}
	for _, ht := range []uint16{0, 3, 90} {
		open := packet.SerializeOpenMsg(&packet.BGPOpen{Version: 4, ASN: 65001, HoldTime: ht, BGPIdentifier: 5})
		if _, err := packet.Decode(bytes.NewBuffer(open), &packet.DecodeOptions{}); err != nil {
			t.Errorf("OPEN with hold time %d rejected: %v", ht, err)
		}
	}
}

// C22: the role sent in the BGP Role capability is the RFC 9234 code of the configured role.
func TestC22PeerRoleCapabilityCode(t *testing.T) {
	v := vrf.NewUntrackedVRF("v", 0)
	v.CreateIPv4UnicastLocRIB("inet.0")
	p, err := newPeer(PeerConfig{LocalAS: 65000, PeerAS: 65001, PeerAddress: bnet.IPv4(1).Ptr(), LocalAddress: bnet.IPv4(2).Ptr(), Passive: true,
		PeerRole: PeerConfigRoleCustomer, VRF: v, IPv4: &AddressFamilyConfig{}}, nil)
	if err != nil {
		t.Fatal(err)
	}
	for _, op := range p.optOpenParams {
		for _, c := range op.Value.(packet.Capabilities) {
			if c.Code == packet.PeerRoleCapabilityCode {
				if got := c.Value.(packet.PeerRoleCapability).PeerRole; got != packet.PeerRoleRoleCustomer {
					t.Errorf("configured role Customer is advertised as role code %d (%s), want %d", got, packet.PeerRoleName(got), packet.PeerRoleRoleCustomer)
				}
				return
			}
		}
	}
	t.Errorf("no role capability")
}

// C24: a second connection is detected while the first is in OpenConfirm / Established.
func TestC24CollisionDetection(t *testing.T) {
	fsm, _, _ := c07FSM()
	if !isEstablishedState(newEstablishedState(fsm)) {
		t.Errorf("isEstablishedState(newEstablishedState()) is false: collisions with an established session are never detected")
	}
	if !isOpenConfirmState(newOpenConfirmState(fsm)) {
		t.Errorf("isOpenConfirmState(newOpenConfirmState()) is false")
	}
	p := fsm.peer
	other := &FSM{peer: p, neighborID: 50}
	other.state = newEstablishedState(other)
	p.fsms = []*FSM{other, fsm}
	fsm.neighborID = 50
	if !p.collisionHandling(fsm) {
		t.Errorf("second connection is not ceased although the first one is Established: two sessions with one peer")
	}
}
