package server

// place in protocols/bgp/server/ (in-package test, scratch worktree only); needs c07FSM from c07_c21_test.go

import (
	"testing"
	"time"

	"github.com/bio-routing/bio-rd/protocols/bgp/packet"
)

func c22Open(asn uint16, caps ...packet.Capability) *packet.BGPOpen {
	o := &packet.BGPOpen{Version: 4, ASN: asn, HoldTime: 90, BGPIdentifier: 7}
	if len(caps) > 0 {
		o.OptParams = []packet.OptParam{{Type: packet.CapabilitiesParamType, Value: packet.Capabilities(caps)}}
	}
	return o
}

// C22: what a session negotiated depends on the OPEN of THAT session only.  The FSM (and the peer) live across sessions.
func TestC22NegotiationIsPerSession(t *testing.T) {
	fsm, _, _ := c07FSM()
	fsm.peer.holdTime = 90 * time.Second
	fsm.peer.fsms = []*FSM{fsm}

	// session 1: the peer supports 4-octet AS numbers
	s1 := newOpenSentState(fsm)
	if next, why := s1.openMsgReceived(c22Open(65001, packet.Capability{Code: packet.ASN4CapabilityCode, Value: packet.ASN4Capability{ASN4: 65001}})); stateName(next) != stateNameOpenConfirm {
		t.Fatalf("session 1: %s (%s)", stateName(next), why)
	}
	if !fsm.decodeOptions().Use32BitASN {
		t.Fatalf("session 1: 4-octet AS numbers not enabled")
	}
	// session 2 (after a reconnect): the peer does NOT advertise the capability
	s2 := newOpenSentState(fsm)
	if next, why := s2.openMsgReceived(c22Open(65001)); stateName(next) != stateNameOpenConfirm {
		t.Fatalf("session 2: %s (%s)", stateName(next), why)
	}
	if fsm.decodeOptions().Use32BitASN {
		t.Errorf("session 2: 4-octet AS numbers are enabled although the peer did not advertise the capability in this session's OPEN")
	}

	// roles, strict mode: session 1 advertises a role, session 2 does not and must be refused
	fsm, con, _ := c07FSM()
	fsm.peer.holdTime = 90 * time.Second
	fsm.peer.fsms = []*FSM{fsm}
	fsm.peer.peerRoleEnabled, fsm.peer.peerRoleStrictMode, fsm.peer.peerRoleLocal = true, true, packet.PeerRoleRoleCustomer
	role := packet.Capability{Code: packet.PeerRoleCapabilityCode, Value: packet.PeerRoleCapability{PeerRole: packet.PeerRoleRoleProvider}}
	if next, why := newOpenSentState(fsm).openMsgReceived(c22Open(65001, role)); stateName(next) != stateNameOpenConfirm {
		t.Fatalf("role session 1: %s (%s)", stateName(next), why)
	}
	con.Buf.Reset()
	if next, _ := newOpenSentState(fsm).openMsgReceived(c22Open(65001)); stateName(next) == stateNameOpenConfirm {
		t.Errorf("role session 2: strict mode is configured and the peer advertised no role in this OPEN, but the session is admitted (the role of the previous session is still remembered)")
	}
	// … and a peer that now advertises a different (compatible) role is not a peer with "multiple different roles"
	fsm, _, _ = c07FSM()
	fsm.peer.holdTime = 90 * time.Second
	fsm.peer.fsms = []*FSM{fsm}
	fsm.peer.peerRoleEnabled, fsm.peer.peerRoleLocal = true, packet.PeerRoleRolePeer
	wrong := packet.Capability{Code: packet.PeerRoleCapabilityCode, Value: packet.PeerRoleCapability{PeerRole: packet.PeerRoleRoleProvider}}
	right := packet.Capability{Code: packet.PeerRoleCapabilityCode, Value: packet.PeerRoleCapability{PeerRole: packet.PeerRoleRolePeer}}
	newOpenSentState(fsm).openMsgReceived(c22Open(65001, wrong)) // refused: Peer/Provider
	if next, why := newOpenSentState(fsm).openMsgReceived(c22Open(65001, right)); stateName(next) != stateNameOpenConfirm {
		t.Errorf("role session 2 with the corrected role Peer/Peer is refused: %s", why)
	}
}
