package server

import (
	"testing"
	"time"
)

// C23: "every sequence of states … is a behaviour of an abstract RFC 4271 finite state machine".  RFC 4271 §4.2/§8:
// a negotiated hold time of zero means the hold timer is not started, so OpenConfirm has no HoldTimer_Expires event.
// openConfirmState.checkHoldtimer compares the time since the last KEEPALIVE with the hold time without looking at
// hold time 0: one second after entering OpenConfirm the session is torn down with "hold timer expired".
func TestC23OpenConfirmHoldTimeZeroNeverExpires(t *testing.T) {
	fsm, _, _ := c07FSM()
	fsm.holdTime = 0                                          // negotiated: no keepalives, no hold timer
	fsm.lastUpdateOrKeepalive = time.Now().Add(-time.Hour)    // nothing received for a long time
	s := newOpenConfirmState(fsm)
	next, reason := s.checkHoldtimer()
	if _, ok := next.(*openConfirmState); !ok {
		t.Fatalf("with a negotiated hold time of 0 the periodic hold timer check left OpenConfirm: next state %T (%q)", next, reason)
	}
}
