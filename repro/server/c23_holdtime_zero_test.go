package server

import (
	"github.com/bio-routing/bio-rd/protocols/bgp/packet"
	"testing"
	"time"
)

// C23: "every sequence of states … is a behaviour of an abstract RFC 4271 finite state machine".  RFC 4271 §4.2/§8:
// a negotiated hold time of zero means the hold timer is not started, so OpenConfirm has no HoldTimer_Expires event.
// openConfirmState.checkHoldtimer compares the time since the last KEEPALIVE with the hold time without looking at
// hold time 0: one second after entering OpenConfirm the session is torn down with "hold timer expired".
func TestC23OpenConfirmHoldTimeZeroNeverExpires(t *testing.T) {
	fsm, _, _ := c07FSM()
	fsm.holdTime = 0                                          // negotiated: no keepalives, no hold timer
	fsm.lastUpdateOrKeepalive = time.Now().Add(-time.Hour)    // nothing received for a long time
	s := newOpenConfirmState(fsm)
	next, reason := s.checkHoldtimer()
	if _, ok := next.(*openConfirmState); !ok {
		t.Fatalf("with a negotiated hold time of 0 the periodic hold timer check left OpenConfirm: next state %T (%q)", next, reason)
	}
}

// Same clause, Established: the guard there is `keepaliveTimer != nil`, and handleOpenMessage only ever SETS the
// keepalive timer (when the negotiated hold time is not zero) — a timer left over from an earlier session of the same
// FSM makes a later session that negotiates hold time 0 expire at its first check.
func TestC23EstablishedHoldTimeZeroAfterEarlierSession(t *testing.T) {
	fsm, _, _ := c07FSM()
	fsm.peer.holdTime = 90 * time.Second
	// session 1 negotiated 90 s
	s1 := newOpenSentState(fsm)
	s1.handleOpenMessage(&packet.BGPOpen{Version: 4, ASN: 65001, HoldTime: 90, BGPIdentifier: 5})
	if fsm.keepaliveTimer == nil {
		t.Fatalf("setup: session 1 did not arm the keepalive timer")
	}
	// session 2 (same FSM object, as after a reconnect) negotiates hold time 0
	s2 := newOpenSentState(fsm)
	s2.handleOpenMessage(&packet.BGPOpen{Version: 4, ASN: 65001, HoldTime: 0, BGPIdentifier: 5})
	if fsm.holdTime != 0 {
		t.Fatalf("setup: negotiated hold time %v", fsm.holdTime)
	}
	fsm.lastUpdateOrKeepalive = time.Now().Add(-time.Hour)
	next, reason := newEstablishedState(fsm).checkHoldtimer()
	if _, ok := next.(*establishedState); !ok {
		t.Fatalf("with a negotiated hold time of 0 the hold timer check left Established: next state %T (%q)", next, reason)
	}
}
