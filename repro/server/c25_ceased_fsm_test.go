package server

// place in protocols/bgp/server/ (in-package test, scratch worktree only); needs c07FSM from c07_c21_test.go

import (
	"testing"
	"time"

	biotesting "github.com/bio-routing/bio-rd/testing"
)

// C24/C25: the FSM that loses a connection collision ends for good (FSM.run returns on Cease).  It must not stay in the
// peer's list of FSMs: nobody reads its event channel any more and its last published state stays "OpenConfirm" forever.
func c25CeasedLoser(t *testing.T) (*peer, *FSM) {
	winner, _, _ := c07FSM()
	p := winner.peer
	loser := &FSM{peer: p, eventCh: make(chan int), msgRecvCh: make(chan []byte), con: biotesting.NewMockConn(), holdTime: time.Hour, lastUpdateOrKeepalive: time.Now()}
	loser.state = newOpenConfirmState(loser)
	p.fsms = []*FSM{winner, loser}
	ended := make(chan struct{})
	go func() { loser.run(); close(ended) }()
	loser.cease() // what collisionHandling does to the connection that loses
	select {
	case <-ended:
	case <-time.After(2 * time.Second):
		t.Fatal("setup: loser did not end")
	}
	return p, loser
}

func TestC25StopAfterCollisionLoserEnded(t *testing.T) {
	p, _ := c25CeasedLoser(t)
	// the winner idles in its event loop
	p.fsms[0].eventCh = make(chan int)
	go func(ch chan int) {
		for range ch {
		}
	}(p.fsms[0].eventCh)
	stopped := make(chan struct{})
	go func() { p.stop(); close(stopped) }()
	select {
	case <-stopped:
	case <-time.After(2 * time.Second):
		t.Errorf("peer.stop() blocks forever: it sends ManualStop to an FSM that ended in Cease and whose event channel nobody reads")
	}
}

func TestC24CollisionCheckAfterLoserEnded(t *testing.T) {
	p, _ := c25CeasedLoser(t)
	// the winner's session ended meanwhile (not Established any more); a new connection comes in
	newcomer := &FSM{peer: p, eventCh: make(chan int), neighborID: 200} // higher identifier than ours (100): the other OpenConfirm connection would be ceased
	p.fsms = append(p.fsms, newcomer)
	res := make(chan bool, 1)
	go func() { res <- p.collisionHandling(newcomer) }()
	select {
	case collided := <-res:
		if collided {
			t.Errorf("collision reported against an FSM that ended long ago: the peer can never re-establish")
		}
	case <-time.After(2 * time.Second):
		t.Errorf("collisionHandling blocks forever (with fsmsMu held): it sends Cease to an FSM that ended in Cease and still reads as OpenConfirm")
	}
}

// C25: an FSM that has just been ceased is on its way out (FSM.run takes the list lock to remove itself).  A second
// collision check that still sees its old state and holds the list lock sends it another Cease: that must not wait for
// the FSM to finish, because the FSM waits for the list lock.
func TestC25CeaseWhileFSMIsLeaving(t *testing.T) {
	winner, _, _ := c07FSM()
	p := winner.peer
	loser := &FSM{peer: p, eventCh: make(chan int), doneCh: make(chan struct{}), msgRecvCh: make(chan []byte), con: biotesting.NewMockConn(), holdTime: time.Hour, lastUpdateOrKeepalive: time.Now()}
	loser.state = newOpenConfirmState(loser)
	p.fsms = []*FSM{winner, loser}

	p.fsmsMu.Lock() // a third connection's collision check is in progress
	go loser.run()
	loser.eventCh <- Cease             // the first Cease (from an earlier collision check) is taken by the event loop
	time.Sleep(100 * time.Millisecond) // loser.run() now wants the list lock to remove itself
	sent := make(chan struct{})
	go func() { loser.cease(); close(sent) }() // the check in progress still reads "OpenConfirm" and ceases it again
	select {
	case <-sent:
	case <-time.After(2 * time.Second):
		t.Errorf("deadlock: cease() waits for the leaving FSM (event loop gone, ended-signal not yet given) while the caller holds fsmsMu, which the leaving FSM needs to remove itself")
	}
	p.fsmsMu.Unlock()
}
