package server

import (
	"net"
	"testing"
	"time"
)

// C25: "no combination leaves a goroutine blocked forever".  The message receiver goroutine of a session reports a
// failed read on fsm.msgRecvFailCh, an unbuffered channel that nothing in the daemon ever receives from: after the
// connection of a session ends (every session end closes it) the goroutine blocks for good — one per session that ever
// reached OpenSent.
func TestC25MsgReceiverEndsWhenConnectionCloses(t *testing.T) {
	a, b := net.Pipe()
	fsm := newFSM(&peer{})
	fsm.con = a
	ended := make(chan struct{})
	go func() {
		fsm.msgReceiver()
		close(ended)
	}()
	b.Close()
	a.Close()
	select {
	case <-ended:
	case <-time.After(2 * time.Second):
		t.Fatalf("the message receiver goroutine is still blocked 2s after its connection was closed (send on msgRecvFailCh, which has no receiver)")
	}
}
