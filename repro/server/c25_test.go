package server

// place in protocols/bgp/server/ (in-package test, scratch worktree only); needs c07FSM from c07_c21_test.go

import (
	"testing"
	"time"

	"github.com/bio-routing/bio-rd/protocols/bgp/packet"
)

// C25: stopping a peer while one of its sessions handles a received OPEN must complete.
// The FSM goroutine is emulated: it handles the OPEN (collision detection needs the peer's FSM list lock) and then
// goes back to receiving events, as openSentState.run does.
func TestC25StopWhileOpenIsHandled(t *testing.T) {
	fsm, _, _ := c07FSM()
	fsm.eventCh = make(chan int)
	fsm.peer.fsms = []*FSM{fsm}
	fsm.peer.routerID = 100
	fsm.peer.holdTime = 90 * time.Second
	s := newOpenSentState(fsm)
	stopped := make(chan struct{})
	go func() { fsm.peer.stop(); close(stopped) }()
	time.Sleep(50 * time.Millisecond) // stop() now holds fsmsMu and waits for the FSM to take ManualStop
	handled := make(chan struct{})
	go func() {
		s.openMsgReceived(&packet.BGPOpen{Version: 4, ASN: 65001, HoldTime: 90, BGPIdentifier: 7})
		close(handled)
		<-fsm.eventCh // back in the select loop
	}()
	select {
	case <-stopped:
	case <-time.After(2 * time.Second):
		t.Errorf("deadlock: peer.stop holds fsmsMu while it waits for the FSM to receive ManualStop; the FSM waits for fsmsMu in collisionHandling")
	}
}
