package server

import (
	"sync"
	"testing"

	"github.com/bio-routing/bio-rd/protocols/bgp/packet"
)

// C26: "Concurrent use of the … Adj-RIBs, … BGP server API … by route updates, policy changes, session events and
// readers never performs an unsynchronized concurrent read/write of shared memory."  The API's RIB dumps
// (peer.dumpRIBIn/dumpRIBOut, bgpServer.GetRIBIn/GetRIBOut) read fsmAddressFamily.adjRIBIn/adjRIBOut without any lock
// while the FSM goroutine assigns them in init() and clears them in dispose().  Run with -race.  (Without -race the
// same access shows as a nil dereference when the dump hits a session that is not established.)
func TestC26APIDumpVsSessionUpDown(t *testing.T) {
	fsm, _, _ := c07FSM()
	fsm.peer.fsms = []*FSM{fsm}
	var wg sync.WaitGroup
	wg.Add(2)
	go func() {
		defer wg.Done()
		for i := 0; i < 200; i++ {
			s := newEstablishedState(fsm)
			s.init()
			s.uninit()
		}
	}()
	go func() {
		defer wg.Done()
		defer func() {
			if r := recover(); r != nil {
				t.Errorf("RIB dump through the API panicked while the session went up/down: %v", r)
			}
		}()
		for i := 0; i < 2000; i++ {
			fsm.peer.dumpRIBIn(packet.AFIIPv4, packet.SAFIUnicast)
			fsm.peer.dumpRIBOut(packet.AFIIPv4, packet.SAFIUnicast)
		}
	}()
	wg.Wait()
}
