package server

import (
	"sync"
	"testing"

	"github.com/bio-routing/bio-rd/routingtable/filter"
)

// C26, recorded as a known finding (not repaired): a policy replacement from the configuration goroutine
// (peer.replaceImportFilterChain → fsmAddressFamily.replaceImportFilterChain) reads fsmAddressFamily.adjRIBIn and writes
// importFilterChain, while the FSM goroutine assigns adjRIBIn and reads importFilterChain in init() and clears the
// former in dispose() — no common lock.  Run with -race.
func TestC26ReplaceFilterChainVsSessionUpDown(t *testing.T) {
	fsm, _, _ := c07FSM()
	fsm.peer.fsms = []*FSM{fsm}
	var wg sync.WaitGroup
	wg.Add(2)
	go func() {
		defer wg.Done()
		for i := 0; i < 200; i++ {
			s := newEstablishedState(fsm)
			s.init()
			s.uninit()
		}
	}()
	go func() {
		defer wg.Done()
		defer func() { recover() }()
		for i := 0; i < 500; i++ {
			if i%2 == 0 {
				fsm.peer.replaceImportFilterChain(filter.NewAcceptAllFilterChain())
			} else {
				fsm.peer.replaceImportFilterChain(filter.NewDrainFilterChain())
			}
		}
	}()
	wg.Wait()
}
