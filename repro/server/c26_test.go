package server

// place in protocols/bgp/server/ (in-package test, scratch worktree only; run with -race); needs c07FSM from c07_c21_test.go

import (
	"sync"
	"testing"

	"github.com/bio-routing/bio-rd/protocols/bgp/packet"
)

// C26: API/metrics readers of the peer's FSM list run concurrently with an incoming connection being added.
func TestC26FSMListReaders(t *testing.T) {
	fsm, _, _ := c07FSM()
	p := fsm.peer
	p.fsms = []*FSM{fsm}
	newEstablishedState(fsm).init()
	var wg sync.WaitGroup
	wg.Add(2)
	go func() {
		defer wg.Done()
		for i := 0; i < 200; i++ {
			// what incomingConnectionWorker does
			p.fsmsMu.Lock()
			p.fsms = append(p.fsms[:1], &FSM{peer: p})
			p.fsmsMu.Unlock()
		}
	}()
	go func() {
		defer wg.Done()
		for i := 0; i < 200; i++ {
			p.dumpRIBIn(packet.AFIIPv4, packet.SAFIUnicast)
			p.dumpRIBOut(packet.AFIIPv4, packet.SAFIUnicast)
		}
	}()
	wg.Wait()
}

// C26: the metrics reader runs concurrently with the session entering and leaving Established.
func TestC26MetricsVsEstablished(t *testing.T) {
	fsm, _, _ := c07FSM()
	p := fsm.peer
	p.fsms = []*FSM{fsm}
	p.ipv4 = &peerAddressFamily{}
	fsm.state = newEstablishedState(fsm)
	var wg sync.WaitGroup
	wg.Add(2)
	go func() {
		defer wg.Done()
		for i := 0; i < 100; i++ {
			s := newEstablishedState(fsm)
			s.init()
			fsm.stateMu.Lock()
			fsm.state = s
			fsm.stateMu.Unlock()
			s.uninit()
		}
	}()
	go func() {
		defer wg.Done()
		for i := 0; i < 100; i++ {
			metricsForPeer(p)
		}
	}()
	wg.Wait()
}
