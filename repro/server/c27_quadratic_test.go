package server

// place in protocols/bgp/server/ (in-package test, scratch worktree only)

import (
	"net"
	"runtime"
	"testing"
	"time"

	bmppkt "github.com/bio-routing/bio-rd/protocols/bmp/packet"
)

// C27: the work and the memory spent on a message stay in proportion to its size.  An initiation message made of
// empty string TLVs (4 bytes each on the wire) must not cost time/allocation quadratic in their number.
func TestC27InitiationManyTLVs(t *testing.T) {
	cost := func(n int) (time.Duration, uint64) {
		tlvs := make([]*bmppkt.InformationTLV, n)
		for i := range tlvs {
			tlvs[i] = &bmppkt.InformationTLV{InformationType: 0, InformationLength: 0, Information: []byte{}}
		}
		r := newRouter(net.IP{10, 0, 0, 1}, 1234, adjRIBInFactory{}, RouterConfig{})
		var before, after runtime.MemStats
		runtime.ReadMemStats(&before)
		start := time.Now()
		r.processInitiationMsg(&bmppkt.InitiationMessage{CommonHeader: &bmppkt.CommonHeader{Version: 3, MsgType: 4}, TLVs: tlvs})
		d := time.Since(start)
		runtime.ReadMemStats(&after)
		return d, after.TotalAlloc - before.TotalAlloc
	}
	_, a1 := cost(2000)  // 8 KB on the wire
	_, a2 := cost(16000) // 64 KB on the wire
	if a2 > 20*a1 {
		t.Errorf("8x the TLVs cost %dx the allocation (%d → %d bytes for a 64 KB message): quadratic in the message size", a2/a1, a1, a2)
	}
}
