package server

// place in protocols/bgp/server/ (in-package test, scratch worktree only)

import (
	"net"
	"runtime"
	"testing"
	"time"

	bnet "github.com/bio-routing/bio-rd/net"
	bmppkt "github.com/bio-routing/bio-rd/protocols/bmp/packet"
)

func c27Recv(t *testing.T, name string, wire []byte) {
	t.Helper()
	a, b := net.Pipe()
	go func() { a.Write(wire); time.Sleep(100 * time.Millisecond); a.Close() }()
	done := make(chan struct{})
	go func() {
		defer close(done)
		defer func() {
			if r := recover(); r != nil {
				t.Errorf("%s: recvBMPMsg panicked: %v", name, r)
			}
		}()
		var before, after runtime.MemStats
		runtime.ReadMemStats(&before)
		recvBMPMsg(b)
		runtime.ReadMemStats(&after)
		if d := after.TotalAlloc - before.TotalAlloc; d > 1<<22 {
			t.Errorf("%s: receiving %d bytes allocated %d bytes", name, len(wire), d)
		}
	}()
	select {
	case <-done:
	case <-time.After(20 * time.Second):
		t.Errorf("%s: recvBMPMsg did not return", name)
	}
}

// C27: length fields below the header size or absurdly large must neither crash the receiver nor make it allocate.
func TestC27Framing(t *testing.T) {
	c27Recv(t, "length 5", []byte{3, 0, 0, 0, 5, 4})
	c27Recv(t, "length 0", []byte{3, 0, 0, 0, 0, 4})
	c27Recv(t, "length 2^31", []byte{3, 0x80, 0, 0, 0, 4, 1, 2, 3})
}

// C27: a termination message with an empty reason TLV.
func TestC27TerminationEmptyReason(t *testing.T) {
	defer func() {
		if r := recover(); r != nil {
			t.Errorf("termination message with an empty reason TLV crashes the router: %v", r)
		}
	}()
	r := newRouter(net.IP{10, 0, 0, 1}, 1234, adjRIBInFactory{}, RouterConfig{})
	_ = bnet.IPv4(0)
	r.con, _ = net.Pipe()
	r.processTerminationMsg(&bmppkt.TerminationMessage{CommonHeader: &bmppkt.CommonHeader{Version: 3, MsgType: 5}, TLVs: []*bmppkt.InformationTLV{{InformationType: 1, InformationLength: 0, Information: []byte{}}}})
}

// C27: a route-monitoring message that carries a NOTIFICATION or an OPEN instead of an UPDATE.
func TestC27RouteMonitoringWithNonUpdate(t *testing.T) {
	for name, body := range map[string][]byte{
		"NOTIFICATION": {0xff, 0xff, 0xff, 0xff, 0xff, 0xff, 0xff, 0xff, 0xff, 0xff, 0xff, 0xff, 0xff, 0xff, 0xff, 0xff, 0, 21, 3, 6, 0},
		"OPEN":         {0xff, 0xff, 0xff, 0xff, 0xff, 0xff, 0xff, 0xff, 0xff, 0xff, 0xff, 0xff, 0xff, 0xff, 0xff, 0xff, 0, 29, 1, 4, 0xfd, 0xe9, 0, 90, 1, 1, 1, 1, 0},
	} {
		func() {
			defer func() {
				if r := recover(); r != nil {
					t.Errorf("route monitoring message carrying a BGP %s crashes the receiver: %v", name, r)
				}
			}()
			fsm := &FSM{isBMP: true, ribsInitialized: true, peer: &peer{}}
			s := newEstablishedState(fsm)
			s.msgReceived(body, fsm.decodeOptions(), false, 1)
		}()
	}
}
