package server

import (
	"net"
	"testing"

	bnet "github.com/bio-routing/bio-rd/net"
	"github.com/bio-routing/bio-rd/protocols/bgp/packet"
)

func c28Open(as uint16, id uint32, addPath uint8) []byte {
	return packet.SerializeOpenMsg(&packet.BGPOpen{Version: 4, ASN: as, HoldTime: 180, BGPIdentifier: id,
		OptParams: []packet.OptParam{{Type: packet.CapabilitiesParamType, Value: packet.Capabilities{
			{Code: packet.AddPathCapabilityCode, Value: packet.AddPathCapability{{AFI: packet.AFIIPv4, SAFI: packet.SAFIUnicast, SendReceive: addPath}}},
		}}}})
}

func c28PerPeer() []byte {
	return []byte{
		0, 0, 0, 0, 0, 0, 0, 0, 0, 0,
		0, 0, 0, 0, 0, 0, 0, 0, 0, 0, 0, 0, 10, 20, 30, 40,
		0, 0, 0, 101,
		0, 0, 0, 255,
		0, 0, 0, 0, 0, 0, 0, 0,
	}
}

func c28Msg(typ byte, body []byte) []byte {
	l := 6 + len(body)
	return append([]byte{3, byte(l >> 24), byte(l >> 16), byte(l >> 8), byte(l), typ}, body...)
}

func c28Update(withdrawn, attrs, nlri []byte) []byte {
	l := 19 + 2 + len(withdrawn) + 2 + len(attrs) + len(nlri)
	u := []byte{255, 255, 255, 255, 255, 255, 255, 255, 255, 255, 255, 255, 255, 255, 255, 255, byte(l >> 8), byte(l), 2}
	u = append(u, byte(len(withdrawn)>>8), byte(len(withdrawn)))
	u = append(u, withdrawn...)
	u = append(u, byte(len(attrs)>>8), byte(len(attrs)))
	u = append(u, attrs...)
	return append(u, nlri...)
}

// C28: "each monitored router's per-VRF tables contain exactly the routes announced and not withdrawn by its currently
// up peers".  A monitored session on which the monitored router RECEIVES add-path (it offered receive, its peer offered
// send): the peer announces 192.168.0.0/24 with path identifiers 1 and 2 and later withdraws identifier 1 — the route
// is still announced (identifier 2) and must stay in the table.  The BMP pseudo session creates its Adj-RIB-In
// (bmpInit) before the received OPEN has been processed, i.e. with add-path off, while the UPDATEs are decoded with
// add-path on: the withdrawal of one path removes the whole prefix.
func TestC28BMPAddPathSessionKeepsRemainingPath(t *testing.T) {
	r := newRouter(net.IP{10, 0, 0, 1}, 1234, &adjRIBInFactory{}, RouterConfig{})

	up := append(c28PerPeer(), []byte{0, 0, 0, 0, 0, 0, 0, 0, 0, 0, 0, 0, 10, 20, 30, 41, 0, 123, 0, 234}...)
	up = append(up, c28Open(200, 0x01000001, packet.AddPathReceive)...) // sent by the monitored router
	up = append(up, c28Open(101, 255, packet.AddPathSend)...)          // received from its peer
	r.processMsg(c28Msg(3, up))

	attrs := []byte{
		64, 1, 1, 2,
		64, 2, 6, 2, 1, 0, 0, 0, 101,
		64, 3, 4, 10, 11, 12, 13,
	}
	pfx := func(id byte) []byte { return []byte{0, 0, 0, id, 24, 192, 168, 0} }
	r.processMsg(c28Msg(0, append(c28PerPeer(), c28Update(nil, attrs, append(pfx(1), pfx(2)...))...)))

	v := r.GetVRF(0)
	if v == nil {
		t.Fatalf("no VRF after peer up")
	}
	rib := v.IPv4UnicastRIB()
	if n := rib.RouteCount(); n != 1 {
		t.Fatalf("setup: expected the announced prefix in the table, %d routes", n)
	}
	if got := len(rib.Get(bnet.NewPfx(bnet.IPv4FromOctets(192, 168, 0, 0), 24).Ptr()).Paths()); got != 2 {
		t.Errorf("two paths (identifiers 1 and 2) were announced for the prefix, the table holds %d", got)
	}

	// withdraw identifier 1 only
	r.processMsg(c28Msg(0, append(c28PerPeer(), c28Update(pfx(1), nil, nil)...)))
	if n := rib.RouteCount(); n != 1 {
		t.Fatalf("the prefix is still announced with path identifier 2, but the table holds %d routes after the withdrawal of identifier 1", n)
	}
}
