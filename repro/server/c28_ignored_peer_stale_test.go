package server

import (
	"testing"

	"net"
)

func c28PeerUp(as byte) []byte {
	return []byte{
		3, 0, 0, 0, 126, 3,
		0, 0, 0, 0, 0, 0, 0, 0, 0, 0,
		0, 0, 0, 0, 0, 0, 0, 0, 0, 0, 0, 0, 10, 20, 30, 40,
		0, 0, 0, as,
		0, 0, 0, 255,
		0, 0, 0, 0, 0, 0, 0, 0,
		0, 0, 0, 0, 0, 0, 0, 0, 0, 0, 0, 0, 10, 20, 30, 41,
		0, 123, 0, 234,
		255, 255, 255, 255, 255, 255, 255, 255, 255, 255, 255, 255, 255, 255, 255, 255,
		0, 29, 1, 4, 0, 200, 0, 180, 1, 0, 0, 1, 0,
		255, 255, 255, 255, 255, 255, 255, 255, 255, 255, 255, 255, 255, 255, 255, 255,
		0, 29, 1, 4, 0, as, 0, 180, 1, 0, 0, 255, 0,
	}
}

func c28RouteMon(as byte) []byte {
	return []byte{
		3, 0, 0, 0, 99, 0,
		0, 0, 0, 0, 0, 0, 0, 0, 0, 0,
		0, 0, 0, 0, 0, 0, 0, 0, 0, 0, 0, 0, 10, 20, 30, 40,
		0, 0, 0, as,
		0, 0, 0, 255,
		0, 0, 0, 0, 0, 0, 0, 0,
		255, 255, 255, 255, 255, 255, 255, 255, 255, 255, 255, 255, 255, 255, 255, 255,
		0, 51, 2,
		0, 0,
		0, 24,
		64, 1, 1, 2,
		64, 2, 10, 2, 2, 0, 0, 0, as, 0, 0, 59, 65,
		64, 3, 4, 10, 11, 12, 13,
		24, 192, 168, 0,
	}
}

// C28: "each monitored router's per-VRF tables contain exactly the routes announced and not withdrawn by its currently
// up peers; after … loss of the BMP connection nothing learned from that … session remains".  The set of ignored peers
// (peer-up with an ignored AS) survives the loss of the BMP connection: when the monitored router reconnects and the
// same peer address comes up with an AS that is NOT ignored, its routes are still dropped.
func TestC28IgnoredPeerForgottenWithTheSession(t *testing.T) {
	r := newRouter(net.IP{10, 0, 0, 1}, 1234, &adjRIBInFactory{}, RouterConfig{IgnorePeerASNs: []uint32{100}})

	// session 1: the peer comes up with the ignored AS 100; then the BMP connection is lost (no peer down)
	r.processMsg(c28PeerUp(100))
	r.cleanup()

	// session 2: same peer address, AS 101 (not ignored), announces 192.168.0.0/24
	r.processMsg(c28PeerUp(101))
	r.processMsg(c28RouteMon(101))

	v := r.GetVRF(0)
	if v == nil {
		t.Fatalf("no VRF after peer up")
	}
	if n := v.IPv4UnicastRIB().RouteCount(); n != 1 {
		t.Fatalf("route announced by an up, not ignored peer is missing: %d routes (ignoredPeers kept the address from the previous BMP session: %v)", n, r.ignoredPeers)
	}
}
