package server

import (
	"testing"
	"time"

	bnet "github.com/bio-routing/bio-rd/net"
)

// C36: "removed neighbors are removed".  DisposePeer stops the peer's FSMs with ManualStop and forgets the peer; the
// FSM goes to Idle — and idleState.run re-activates every non-passive FSM after the reconnect interval (15 s by
// default), whatever brought it to Idle.  A neighbor removed from the configuration is back up a few seconds after the
// reload, and after a restart-requiring change the old peer object reconnects next to the new one.
func TestC36StoppedPeerStaysIdle(t *testing.T) {
	p := &peer{addr: bnet.IPv4(1).Ptr(), reconnectInterval: 20 * time.Millisecond}
	fsm := newFSM(p)
	p.stop() // what DisposePeer does (no FSM listed: nothing to hand an event to in this unit test)

	left := make(chan state, 1)
	go func() {
		next, _ := newIdleState(fsm).run()
		left <- next
	}()
	select {
	case next := <-left:
		t.Fatalf("the FSM of a stopped (disposed) peer left Idle on its own after the reconnect interval: next state %T", next)
	case <-time.After(300 * time.Millisecond):
	}
}
