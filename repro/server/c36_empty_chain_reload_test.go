package server

import (
	"testing"

	bnet "github.com/bio-routing/bio-rd/net"
	"github.com/bio-routing/bio-rd/route"
	"github.com/bio-routing/bio-rd/routingtable/filter"
	"github.com/bio-routing/bio-rd/routingtable/vrf"
)

// C36: "Reloading the daemon configuration results in … the same effective settings and policies as starting fresh with
// the new configuration".  A neighbor without import (export) policy starts with the reject-all default chain
// (newPeer → filterOrDefault); a reload that removes the policy hands the empty chain to ReplaceImportFilterChain, which
// installs it as it is — an empty chain accepts everything.
func TestC36ReloadToNoPolicyEqualsFreshStart(t *testing.T) {
	mk := func(imp, exp filter.Chain) *peer {
		v := vrf.NewUntrackedVRF("v", 0)
		v.CreateIPv4UnicastLocRIB("inet.0")
		p, err := newPeer(PeerConfig{LocalAS: 65000, PeerAS: 65001, PeerAddress: bnet.IPv4(1).Ptr(), LocalAddress: bnet.IPv4(2).Ptr(), Passive: true,
			RouterID: 1, VRF: v, IPv4: &AddressFamilyConfig{ImportFilterChain: imp, ExportFilterChain: exp}}, &bgpServer{})
		if err != nil {
			t.Fatal(err)
		}
		return p
	}
	rejects := func(c filter.Chain) bool {
		_, reject := c.Process(bnet.NewPfx(bnet.IPv4FromOctets(10, 0, 0, 0), 8).Ptr(), &route.Path{Type: route.BGPPathType, BGPPath: &route.BGPPath{BGPPathA: &route.BGPPathA{}}})
		return reject
	}

	fresh := mk(nil, nil) // started with the new configuration: no policies
	reloaded := mk(filter.NewAcceptAllFilterChain(), filter.NewAcceptAllFilterChain())
	reloaded.replaceImportFilterChain(nil) // what the reload does for that configuration
	reloaded.replaceExportFilterChain(nil)

	if !rejects(fresh.ipv4.importFilterChain) || !rejects(fresh.ipv4.exportFilterChain) {
		t.Fatalf("setup: a neighbor without policies is expected to start with the reject-all default")
	}
	if !rejects(reloaded.ipv4.importFilterChain) {
		t.Errorf("after the reload the neighbor ACCEPTS every received route, a fresh start with the same configuration rejects them")
	}
	if !rejects(reloaded.ipv4.exportFilterChain) {
		t.Errorf("after the reload the neighbor ANNOUNCES every route, a fresh start with the same configuration announces none")
	}
}
