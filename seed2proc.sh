#!/bin/bash
# usage: seed2proc.sh Cxx [Cyy …] — confirm, keep and test wave-2 seeds (variants c, d) delivered under /tmp/seed2/<id>/
cd /verif
for p in "$@"; do
  for x in c d; do
    d=/tmp/seed2/$p/$x
    [ -f $d/patch.diff ] || { echo "$p-$x: not delivered"; continue; }
    r=$(./seedverify.sh $d 2>&1 | tail -1)
    echo "$r"
    case "$r" in
      *"build=ok suite_with_change=ok demo_with_change=fail demo_without=pass"*)
        ./seedkeep.sh $d $p-$x >/dev/null 2>&1
        t=$(./seedtest.sh /verif/seeded/$p-$x $p 2>&1 | grep -v KNOWN | cut -c1-220)
        echo "$t" | sed "s/^/    /"
        ;;
      *) echo "    NOT KEPT";;
    esac
  done
done
