#!/bin/bash
# usage: seed2verify.sh Cxx … — confirm and keep wave-5 seeds (no change to /repo's working tree)
cd /verif
for p in "$@"; do
  for x in i j; do
    d=/tmp/seed5/$p/$x
    [ -f $d/patch.diff ] || { echo "$p-$x: not delivered"; continue; }
    [ -d /verif/seeded/$p-$x ] && { echo "$p-$x: already kept"; continue; }
    r=$(./seedverify.sh $d 2>&1 | tail -1)
    echo "$r"
    case "$r" in
      *"build=ok suite_with_change=ok"*"demo_with_change=fail demo_without=pass"*) ./seedkeep.sh $d $p-$x >/dev/null 2>&1;;
      *) echo "    NOT KEPT";;
    esac
  done
done
