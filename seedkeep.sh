#!/bin/bash
# usage: seedkeep.sh <seed src dir> <id>   (after seedverify.sh said: suite ok, demo fails with / passes without)
src=$1; id=$2
dst=/verif/seeded/$id
mkdir -p $dst
cp $src/patch.diff $dst/patch.diff
cp $src/demo_test.go $dst/demo_test.go
python3 - "$src/meta.json" "$dst/meta.json" <<'PY'
import json,sys,subprocess
m=json.load(open(sys.argv[1]))
head=subprocess.check_output(['git','-C','/repo','rev-parse','--short','HEAD']).decode().strip()
m['confirmed_by_me']={'at_repo_commit':head,'ran':'/verif/seedverify.sh: scratch worktree of /repo HEAD; git apply patch.diff; go build ./...; go test -vet=off -count=1 ./... (pass); demo test fails with the change; git checkout; demo test passes','origin':'written by an independent sub-agent that saw only the property text and its own scratch worktree'}
json.dump(m,open(sys.argv[2],'w'),indent=1)
PY
