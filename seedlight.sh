#!/bin/bash
# usage: seedlight.sh Cxx … — like seed5verify.sh, but the existing tests are run for the packages the change touches only
# (the authors ran the whole suite; this re-confirms build, touched packages' tests, demo fails with / passes without the change).
export GOFLAGS=-mod=mod GOPROXY=off GOSUMDB=off GOTOOLCHAIN=local
cd /verif
for p in "$@"; do for x in i j; do
  d=/tmp/seed5/$p/$x
  [ -f $d/patch.diff ] || { echo "$p-$x: not delivered"; continue; }
  [ -d /verif/seeded/$p-$x ] && { echo "$p-$x: already kept"; continue; }
  wt=/tmp/wt/light_$$
  git -C /repo worktree add -q --detach $wt HEAD || exit 2
  cd $wt
  pkg=$(python3 -c "import json;print(json.load(open('$d/meta.json'))['demo_pkg_dir'])")
  run=$(python3 -c "import json;print(json.load(open('$d/meta.json'))['demo_run'])")
  res=""
  if ! git apply $d/patch.diff 2>/dev/null; then patch -p1 -s --no-backup-if-mismatch < $d/patch.diff || res="patch-does-not-apply"; fi
  if [ -z "$res" ]; then
    go build ./... >/dev/null 2>&1 && b=ok || b=FAIL
    pkgs=$(git diff --name-only | grep '\.go$' | xargs -n1 dirname | sort -u | sed 's#^#./#' | tr '\n' ' ')
    s=ok
    go test -vet=off -count=1 $pkgs > /tmp/light_$$.log 2>&1 || { go test -vet=off -count=1 $pkgs > /tmp/light_$$.log 2>&1 || s=FAIL; }
    cp $d/demo_test.go $pkg/zz_seed_demo_test.go
    rn=$(echo "$run" | sed -n 's/.*-run \([^ ]*\).*/\1/p' | tr -d "'\"")
    race=""; case "$run" in *-race*) race="-race";; esac
    (cd $pkg && go test $race -count=1 -run "$rn" . > /dev/null 2>&1) && w=PASS || w=fail
    git checkout -q -- .
    (cd $pkg && go test $race -count=1 -run "$rn" . > /dev/null 2>&1) && wo=pass || wo=FAIL
    res="build=$b touched_packages_with_change=$s demo_with_change=$w demo_without=$wo"
  fi
  echo "$p-$x: $res"
  cd /verif; git -C /repo worktree remove --force $wt
  case "$res" in
    "build=ok touched_packages_with_change=ok demo_with_change=fail demo_without=pass") ./seedkeep.sh $d $p-$x >/dev/null 2>&1
       python3 - /verif/seeded/$p-$x/meta.json <<'PY'
import json,sys
m=json.load(open(sys.argv[1]))
m['confirmed_by_me']['ran']="/verif/seedlight.sh: scratch worktree of /repo HEAD; git apply patch.diff; go build ./...; go test -vet=off -count=1 of the packages the change touches (pass); demo test fails with the change; git checkout; demo test passes.  The whole suite was run by the change's author only (meta 'verified'), not again here, for lack of machine time."
json.dump(m,open(sys.argv[1],'w'),indent=1)
PY
       ;;
    *) echo "    NOT KEPT";;
  esac
done; done
rm -f /tmp/light_$$.log
