#!/bin/bash
# usage: seedtest.sh <dir with patch.diff> <prop> [<prop>...]   — applies the seeded change to /repo, runs the checks, reverts.
d=$1; shift
cd /repo || exit 2
if [ -n "$(git status --porcelain)" ]; then echo "repo dirty"; exit 2; fi
if ! git apply "$d/patch.diff" 2>/dev/null; then
  if ! patch -p1 -s --no-backup-if-mismatch < "$d/patch.diff"; then echo "PATCH DOES NOT APPLY"; git checkout -- .; git clean -fdq; exit 3; fi
fi
for p in "$@"; do
  (cd /verif && bin/vcheck -prop $p -tier quick -nocontrols 2>&1 | grep -E "^(property=|  violated|  undecided|VIOLATION)" | cut -c1-260)
done
git checkout -- . ; git clean -fdq
