#!/bin/bash
# usage: seedverify.sh <seed dir>  — confirms a seeded change in a scratch worktree of /repo HEAD:
#  builds, existing suite passes with the change, demo fails with it and passes without it.
export GOFLAGS=-mod=mod GOPROXY=off GOSUMDB=off GOTOOLCHAIN=local
d=$1
wt=/tmp/wt/verify_$$
git -C /repo worktree add -q --detach $wt HEAD || exit 2
cd $wt
pkg=$(python3 -c "import json;print(json.load(open('$d/meta.json'))['demo_pkg_dir'])")
run=$(python3 -c "import json;print(json.load(open('$d/meta.json'))['demo_run'])")
name=zz_seed_demo_test.go
res=""
if ! git apply $d/patch.diff 2>/dev/null; then patch -p1 -s --no-backup-if-mismatch < $d/patch.diff || res="patch-does-not-apply"; fi
if [ -z "$res" ]; then
  go build ./... >/dev/null 2>&1 && b=ok || b=FAIL
  go test -vet=off -count=1 ./... > /tmp/seedverify_$$_suite.log 2>&1 && s=ok || s=FAIL
  if [ $s = FAIL ]; then
    # timing-dependent tests (TestSender, TestISISServer) fail now and then under load: re-run the failing packages twice
    pk=$(grep -E "^(FAIL|---)" /tmp/seedverify_$$_suite.log | grep -E "^FAIL\s+github" | awk '{print $2}' | sed 's#github.com/bio-routing/bio-rd#.#' | sort -u)
    ft=$(grep -E "^--- FAIL" /tmp/seedverify_$$_suite.log | awk '{print $3}' | sort -u | tr '\n' ',')
    if [ -n "$pk" ] && go test -vet=off -count=1 $pk > /tmp/seedverify_$$_suite2.log 2>&1 && go test -vet=off -count=1 $pk >> /tmp/seedverify_$$_suite2.log 2>&1; then s="ok(flaky:$ft)"; else s="FAIL($ft)"; fi
  fi
  cp $d/demo_test.go $pkg/$name
  rn=$(echo "$run" | sed -n 's/.*-run \([^ ]*\).*/\1/p' | tr -d "'\"")
  race=""; case "$run" in *-race*) race="-race";; esac
  (cd $pkg && go test $race -count=1 -run "$rn" . > /tmp/seedverify_$$_demo1.log 2>&1) && w=PASS || w=fail
  git checkout -q -- . 
  (cd $pkg && go test $race -count=1 -run "$rn" . > /tmp/seedverify_$$_demo2.log 2>&1) && wo=pass || wo=FAIL
  res="build=$b suite_with_change=$s demo_with_change=$w demo_without=$wo"
fi
echo "$d: $res"
cd /; git -C /repo worktree remove --force $wt
rm -f /tmp/seedverify_$$_*
